package cdc

// C26: the CDC disk queue is ordered, durable and duplicate-suppressing.
//
// Sequential model (DESIGN.md Appendix C, written from the property text):
//   items: idx -> data, highest (highest index ever stored, survives reopen),
//   nextFrom (emission cursor, reset on reopen).
//   enqueue(idx,data): ignored iff idx <= highest, else stored, highest = idx
//   consume: the stored item with the smallest idx >= nextFrom; nextFrom = idx+1
//   deleteRange(i): removes every item <= i; nextFrom = max(nextFrom, i+1)
//   reopen: items and highest unchanged, nextFrom = 0
// Queries: Len = |items|, Empty, FirstKey = min idx (0 when empty),
// HighestKey = highest, HasNext = some stored idx >= nextFrom.
//
// Timing: an event the model makes available must arrive within 10 s; when the
// model has nothing to emit, nothing may arrive within 20 ms.
//
// Domain: indexes are Raft log indexes (< 2^62 here; idx+1 never wraps).
// An item enqueued at or below a bound that was already passed to DeleteRange
// in the same open (possible when that bound was above the highest index) is
// stored and durable and must be removed by a later DeleteRange covering it;
// only whether it is emitted before the next reopen is left open (the code
// emits it iff nothing had been emitted in this open; callers filter such
// events).

import (
	"bufio"
	"bytes"
	"encoding/hex"
	"fmt"
	"os"
	"os/exec"
	"path/filepath"
	"sort"
	"strconv"
	"strings"
	"sync"
	"sync/atomic"
	"syscall"
	"testing"
	"time"

	"github.com/rqlite/rqlite/v10/internal/verif/vstat"
	"pgregory.net/rapid"
)

const (
	c26Proceed = 10 * time.Second
	c26Block   = 20 * time.Millisecond
)

type c26Model struct {
	items    map[uint64][]byte
	highest  uint64
	nextFrom uint64
	delBound uint64 // largest DeleteRange argument so far (labels only)
	// uncertain: items stored at or below a bound that had already been passed
	// to DeleteRange in this open (idx < nextFrom when stored). They are stored
	// and durable (Len/FirstKey/DeleteRange/reopen are judged), but the
	// statement does not say whether they are still due in the current open:
	// they may be emitted (in increasing order) or not until reopen.
	uncertain   map[uint64]bool
	lastEmitted uint64
}

func (m *c26Model) reopen() {
	m.nextFrom, m.lastEmitted = 0, 0
	m.uncertain = map[uint64]bool{}
}

// pendingUncertain: uncertain items that could still be emitted in this open.
func (m *c26Model) pendingUncertain() []uint64 {
	var out []uint64
	for _, k := range m.keys() {
		if m.uncertain[k] && k > m.lastEmitted {
			out = append(out, k)
		}
	}
	return out
}

func (m *c26Model) keys() []uint64 {
	ks := make([]uint64, 0, len(m.items))
	for k := range m.items {
		ks = append(ks, k)
	}
	sort.Slice(ks, func(i, j int) bool { return ks[i] < ks[j] })
	return ks
}

func (m *c26Model) next() (uint64, bool) {
	for _, k := range m.keys() {
		if k >= m.nextFrom {
			return k, true
		}
	}
	return 0, false
}

func (m *c26Model) enqueue(idx uint64, data []byte) bool {
	if idx <= m.highest {
		return false
	}
	m.items[idx] = append([]byte{}, data...)
	m.highest = idx
	if idx < m.nextFrom {
		if m.uncertain == nil {
			m.uncertain = map[uint64]bool{}
		}
		m.uncertain[idx] = true
	}
	return true
}

func (m *c26Model) deleteRange(i uint64) int {
	n := 0
	for k := range m.items {
		if k <= i {
			delete(m.items, k)
			delete(m.uncertain, k)
			n++
		}
	}
	if m.nextFrom < i+1 {
		m.nextFrom = i + 1
	}
	if m.delBound < i {
		m.delBound = i
	}
	return n
}

func (m *c26Model) clone() *c26Model {
	c := &c26Model{items: map[uint64][]byte{}, highest: m.highest, nextFrom: m.nextFrom, delBound: m.delBound, uncertain: map[uint64]bool{}, lastEmitted: m.lastEmitted}
	for k, v := range m.items {
		c.items[k] = v
	}
	for k := range m.uncertain {
		c.uncertain[k] = true
	}
	return c
}

func (m *c26Model) String() string {
	return fmt.Sprintf("model{keys=%v highest=%d nextFrom=%d maybe-due=%v}", m.keys(), m.highest, m.nextFrom, m.pendingUncertain())
}

// c26CheckQueries compares every query with the model. Returns sig,msg.
func c26CheckQueries(q *Queue, m *c26Model) (string, string) {
	ks := m.keys()
	if got := q.Len(); got != len(ks) {
		return "C26/len-mismatch", fmt.Sprintf("Len()=%d, %s", got, m)
	}
	e, err := q.Empty()
	if err != nil || e != (len(ks) == 0) {
		return "C26/len-mismatch", fmt.Sprintf("Empty()=%v,%v, %s", e, err, m)
	}
	fk, err := q.FirstKey()
	wantFirst := uint64(0)
	if len(ks) > 0 {
		wantFirst = ks[0]
	}
	if err != nil || fk != wantFirst {
		return "C26/firstkey-mismatch", fmt.Sprintf("FirstKey()=%d,%v want %d, %s", fk, err, wantFirst, m)
	}
	hk, err := q.HighestKey()
	if err != nil || hk != m.highest {
		return "C26/highest-mismatch", fmt.Sprintf("HighestKey()=%d,%v, %s", hk, err, m)
	}
	_, has := m.next()
	if got := q.HasNext(); got != has && !(got && !has && len(m.pendingUncertain()) > 0) {
		return "C26/hasnext-mismatch", fmt.Sprintf("HasNext()=%v, %s", got, m)
	}
	return "", ""
}

// c26Consume reads one event according to the model (and, before it, any
// "maybe due" items the queue chooses to emit). Returns sig,msg.
func c26Consume(q *Queue, m *c26Model) (string, string) {
	for {
		want, has := m.next()
		unc := m.pendingUncertain()
		wait := c26Block
		if has {
			wait = c26Proceed
		}
		select {
		case ev, ok := <-q.C:
			if !ok || ev == nil {
				return "C26/item-not-emitted", fmt.Sprintf("events channel closed/nil on an open queue, %s", m)
			}
			stored, isStored := m.items[ev.Index]
			isUnc := false
			for _, u := range unc {
				if u == ev.Index {
					isUnc = true
				}
			}
			switch {
			case has && ev.Index == want, isUnc:
			case !isStored:
				return "C26/emitted-deleted-or-unknown", fmt.Sprintf("received index %d which is not stored, %s", ev.Index, m)
			case ev.Index <= m.lastEmitted && m.lastEmitted != 0:
				return "C26/emitted-twice", fmt.Sprintf("received index %d again or out of order (last emitted %d), %s", ev.Index, m.lastEmitted, m)
			case !has:
				return "C26/emitted-twice", fmt.Sprintf("received index %d although nothing is left to emit, %s", ev.Index, m)
			default:
				return "C26/emitted-out-of-order", fmt.Sprintf("received index %d, expected %d, %s", ev.Index, want, m)
			}
			if !bytes.Equal(ev.Data, stored) {
				return "C26/data-mismatch", fmt.Sprintf("index %d carries %x, stored %x", ev.Index, ev.Data, stored)
			}
			m.lastEmitted = ev.Index
			if isUnc {
				delete(m.uncertain, ev.Index)
				continue // the op was about the next certain item (or about silence)
			}
			m.nextFrom = want + 1
			return "", ""
		case <-time.After(wait):
			if has {
				return "C26/item-not-emitted", fmt.Sprintf("item %d is stored and not yet emitted but nothing arrived within %v, %s", want, c26Proceed, m)
			}
			return "", ""
		}
	}
}

type c26Op struct {
	Kind     string // enq, del, consume, drain, reopen, query
	Idx      uint64
	Data     []byte
	Adjusted bool
}

func (o c26Op) String() string {
	switch o.Kind {
	case "enq":
		return fmt.Sprintf("enq(%d,%dB)", o.Idx, len(o.Data))
	case "del":
		return fmt.Sprintf("del(%d)", o.Idx)
	}
	return o.Kind
}

// c26GenOp draws the next op, aiming at the boundaries of the model state.
func c26GenOp(rt *rapid.T, m *c26Model, kinds []string) c26Op {
	op := c26Op{Kind: rapid.SampledFrom(kinds).Draw(rt, "kind")}
	ks := m.keys()
	switch op.Kind {
	case "enq":
		switch rapid.IntRange(0, 9).Draw(rt, "idxmode") {
		case 0, 1, 2, 3:
			op.Idx = m.highest + uint64(rapid.IntRange(1, 3).Draw(rt, "up"))
		case 4:
			op.Idx = m.highest // duplicate of the highest ever
		case 5:
			d := uint64(rapid.IntRange(0, 4).Draw(rt, "down"))
			if d > m.highest {
				d = m.highest
			}
			op.Idx = m.highest - d
		case 6:
			op.Idx = uint64(rapid.IntRange(0, 12).Draw(rt, "abs"))
		case 7:
			if len(ks) > 0 { // an index that is (or was) stored
				op.Idx = ks[rapid.IntRange(0, len(ks)-1).Draw(rt, "k")]
			} else {
				op.Idx = m.nextFrom
			}
		case 8:
			op.Idx = m.highest + uint64(rapid.IntRange(1, 1000).Draw(rt, "jump"))
		case 9:
			op.Idx = m.highest + 1
			if m.highest < 1<<50 { // stay far below 2^62
				op.Idx += uint64(rapid.Uint32().Draw(rt, "bigjump")) << uint(rapid.IntRange(0, 28).Draw(rt, "sh"))
			}
		}
		if op.Idx > m.highest && op.Idx < m.nextFrom {
			// at or below a bound already passed to DeleteRange in this open:
			// stored and durable, emission in this open not judged (see model)
			op.Adjusted = true
		}
		n := rapid.SampledFrom([]int{0, 1, 3, 8, 8, 40, 40, 300, 5000}).Draw(rt, "len")
		op.Data = rapid.SliceOfN(rapid.Byte(), n, n).Draw(rt, "data")
	case "del":
		var cands []uint64
		cands = append(cands, 0, m.highest, m.highest, m.highest+1, m.highest+7)
		if m.delBound > m.highest {
			cands = append(cands, m.delBound, m.delBound-1)
		}
		if m.nextFrom > 0 {
			cands = append(cands, m.nextFrom-1, m.nextFrom)
		}
		for _, k := range ks {
			cands = append(cands, k, k+1)
			if k > 0 {
				cands = append(cands, k-1)
			}
		}
		op.Idx = rapid.SampledFrom(cands).Draw(rt, "delidx")
	}
	return op
}

func TestVerif_C26_Model(t *testing.T) {
	rec := vstat.New(t, "C26", "model",
		"sequences of 5..45 ops on one on-disk Queue compared step by step with the sequential model: enqueue(idx,data) with idx aimed at highest+1..3, the highest-ever index, below it, stored/deleted indexes, small absolute values and large jumps (data 0..5000 bytes); deleteRange at 0, around every stored key (k-1,k,k+1), around the emission cursor, at and above highest; consume one event (10s when one is due, else nothing may arrive within 20ms); drain; all queries (Len, Empty, FirstKey, HighestKey, HasNext); close+reopen; enqueues at or below an earlier DeleteRange bound are generated and judged for storage, deletion and reopen, only their emission in the same open is left open; non-trivial = the sequence contains a reopen, an ignored enqueue (idx <= highest-ever), a deleteRange that removed something and one that removed nothing, and at least 3 consumed events; distinct by op sequence")
	rapid.Check(t, func(rt *rapid.T) {
		dir, err := os.MkdirTemp("", "c26-")
		if err != nil {
			rec.Label("inconclusive:no-temp-dir")
			return
		}
		defer os.RemoveAll(dir)
		path := filepath.Join(dir, "fifo.db")
		q, err := NewQueue(path)
		if err != nil {
			rt.Fatalf("%s", rec.Violation("C26/open-failed", "NewQueue on a fresh path: %v", err))
		}
		defer func() { q.Close() }()
		m := &c26Model{items: map[uint64][]byte{}}
		var trace []string
		fail := func(sig, f string, a ...any) {
			rt.Fatalf("%s", rec.Violation(sig, f+" :: trace=%s", append(a, strings.Join(trace, " "))...))
		}
		nOps := rapid.IntRange(5, 45).Draw(rt, "nops")
		reopens, ignored, delSome, delNone, consumed, afterDelAllReopen, ignoredAfterReopen := 0, 0, 0, 0, 0, 0, 0
		reopenedSinceEnq := false
		adjusted, delBeyond := 0, 0
		kinds := []string{"enq", "enq", "enq", "enq", "enq", "del", "del", "consume", "consume", "consume", "drain", "reopen", "query"}
		for step := 0; step < nOps; step++ {
			op := c26GenOp(rt, m, kinds)
			trace = append(trace, op.String())
			if op.Adjusted {
				adjusted++
			}
			if op.Kind == "del" && op.Idx > m.highest {
				delBeyond++
			}
			switch op.Kind {
			case "enq":
				if err := q.Enqueue(&Event{Index: op.Idx, Data: op.Data}); err != nil {
					fail("C26/enqueue-error", "Enqueue(%d) failed: %v", op.Idx, err)
				}
				if !m.enqueue(op.Idx, op.Data) {
					ignored++
					if reopenedSinceEnq {
						ignoredAfterReopen++
					}
				}
				reopenedSinceEnq = false
			case "del":
				if err := q.DeleteRange(op.Idx); err != nil {
					fail("C26/delete-error", "DeleteRange(%d) failed: %v", op.Idx, err)
				}
				if m.deleteRange(op.Idx) > 0 {
					delSome++
				} else {
					delNone++
				}
			case "consume":
				_, has := m.next()
				if sig, msg := c26Consume(q, m); sig != "" {
					fail(sig, "%s", msg)
				}
				if has {
					consumed++
				}
			case "drain":
				for {
					_, has := m.next()
					if !has {
						break
					}
					if sig, msg := c26Consume(q, m); sig != "" {
						fail(sig, "%s", msg)
					}
					consumed++
				}
			case "reopen":
				q.Close()
				q, err = NewQueue(path)
				if err != nil {
					fail("C26/open-failed", "reopen failed: %v", err)
				}
				m.reopen()
				reopens++
				reopenedSinceEnq = true
				if len(m.items) == 0 && m.highest > 0 {
					afterDelAllReopen++
				}
			case "query":
			}
			if sig, msg := c26CheckQueries(q, m); sig != "" {
				fail(sig, "after %s: %s", op, msg)
			}
		}
		// final: everything still stored and not yet emitted comes out, in order, once
		for {
			_, has := m.next()
			if !has {
				break
			}
			if sig, msg := c26Consume(q, m); sig != "" {
				fail(sig, "final drain: %s", msg)
			}
		}
		if sig, msg := c26Consume(q, m); sig != "" {
			fail(sig, "after final drain: %s", msg)
		}
		rec.Case(reopens > 0 && ignored > 0 && delSome > 0 && delNone > 0 && consumed >= 3, strings.Join(trace, " "))
		rec.Sample(strings.Join(trace, " "))
		if reopens > 0 {
			rec.Label("reopen")
		}
		if ignored > 0 {
			rec.Label("enqueue-ignored(<=highest)")
		}
		if ignoredAfterReopen > 0 {
			rec.Label("enqueue-ignored-right-after-reopen")
		}
		if afterDelAllReopen > 0 {
			rec.Label("reopen-with-everything-deleted")
		}
		if delSome > 0 {
			rec.Label("delete-removed-items")
		}
		if delNone > 0 {
			rec.Label("delete-removed-nothing")
		}
		if consumed >= 3 {
			rec.Label(">=3-consumed")
		}
		if delBeyond > 0 {
			rec.Label("delete-beyond-highest")
		}
		if adjusted > 0 {
			rec.Label("enqueue-at-or-below-deleted-bound(emission-not-judged)")
		}
	})
}

// ---------------------------------------------------------------------------
// Kill variant: the ops run in a child process (this test binary, re-executed
// through $VERIF_SELF) in lock-step with the parent; after a generated number
// of acknowledged ops the parent releases one more op and kills the child with
// SIGKILL right away or after 0-2ms. The state found on reopen must be the
// model state after the acknowledged ops, or that state plus the in-flight op.

func TestVerif_C26_KillChild(t *testing.T) {
	path := os.Getenv("C26_CHILD_PATH")
	if path == "" {
		t.Skip("helper for TestVerif_C26_Kill")
	}
	q, err := NewQueue(path)
	if err != nil {
		fmt.Printf("C26ERR open %v\n", err)
		os.Exit(3)
	}
	in := bufio.NewReader(os.Stdin)
	fmt.Printf("C26READY\n")
	for {
		line, err := in.ReadString('\n')
		if err != nil {
			os.Exit(0)
		}
		f := strings.Fields(line)
		if len(f) == 0 {
			continue
		}
		switch f[0] {
		case "enq":
			idx, _ := strconv.ParseUint(f[1], 10, 64)
			data, _ := hex.DecodeString(f[2][1:])
			if err := q.Enqueue(&Event{Index: idx, Data: data}); err != nil {
				fmt.Printf("C26ERR enq %v\n", err)
				os.Exit(3)
			}
		case "del":
			idx, _ := strconv.ParseUint(f[1], 10, 64)
			if err := q.DeleteRange(idx); err != nil {
				fmt.Printf("C26ERR del %v\n", err)
				os.Exit(3)
			}
		case "consume":
			select {
			case <-q.C:
			case <-time.After(50 * time.Millisecond):
			}
		case "reopen":
			q.Close()
			q, err = NewQueue(path)
			if err != nil {
				fmt.Printf("C26ERR reopen %v\n", err)
				os.Exit(3)
			}
		}
		fmt.Printf("C26ACK\n")
	}
}

func c26SameState(q *Queue, m *c26Model) (string, string) {
	mm := m.clone()
	mm.reopen()
	if sig, msg := c26CheckQueries(q, mm); sig != "" {
		return sig, msg
	}
	return "", ""
}

func TestVerif_C26_Kill(t *testing.T) {
	self := os.Getenv("VERIF_SELF")
	if self == "" {
		if exe, err := os.Executable(); err == nil {
			self = exe
		}
	}
	rec := vstat.New(t, "C26", "kill",
		"a child process runs a generated sequence of 3..25 enqueue/deleteRange/consume/reopen ops on an on-disk Queue in lock-step with the parent (one op per line, one ack per op); after k acknowledged ops (k generated) the parent releases the next 1..6 ops without waiting for acks and SIGKILLs the child after 0..8000us; the queue is then reopened in the parent: its state must equal the model after k+j ops for some 0<=j<=released (queries), and the full emission must be exactly that state's items in index order; then the duplicate rule is probed (enqueue at the highest-ever index is ignored, highest+1 is accepted); non-trivial = the acknowledged prefix contains a stored enqueue and a delete and a released op is a mutation; distinct by op sequence + k")
	rapid.Check(t, func(rt *rapid.T) {
		dir, err := os.MkdirTemp("", "c26k-")
		if err != nil {
			rec.Label("inconclusive:no-temp-dir")
			return
		}
		defer os.RemoveAll(dir)
		path := filepath.Join(dir, "fifo.db")
		nOps := rapid.IntRange(3, 25).Draw(rt, "nops")
		m := &c26Model{items: map[uint64][]byte{}}
		kinds := []string{"enq", "enq", "enq", "enq", "del", "del", "consume", "reopen"}
		var ops []c26Op
		var states []*c26Model // states[i] = model after i ops
		states = append(states, m.clone())
		for i := 0; i < nOps; i++ {
			op := c26GenOp(rt, m, kinds)
			if op.Kind == "enq" && len(op.Data) > 300 {
				op.Data = op.Data[:300]
			}
			ops = append(ops, op)
			switch op.Kind {
			case "enq":
				m.enqueue(op.Idx, op.Data)
			case "del":
				m.deleteRange(op.Idx)
			}
			states = append(states, m.clone())
		}
		k := rapid.IntRange(0, nOps-1).Draw(rt, "acked")
		killDelay := time.Duration(rapid.SampledFrom([]int{0, 50, 100, 200, 500, 1000, 2000, 4000, 8000}).Draw(rt, "killDelayUs")) * time.Microsecond
		// burst: number of ops released without waiting for their acks before the kill
		burst := rapid.IntRange(1, 6).Draw(rt, "burst")
		if burst > nOps-k {
			burst = nOps - k
		}
		var trace []string
		for i, op := range ops {
			if i == k {
				trace = append(trace, "|kill-during:")
			}
			if i >= k+burst {
				break
			}
			trace = append(trace, op.String())
		}
		canon := strings.Join(trace, " ")
		fail := func(sig, f string, a ...any) {
			rt.Fatalf("%s", rec.Violation(sig, f+" :: trace=%s", append(a, canon)...))
		}

		cmd := exec.Command(self, "-test.run", "^TestVerif_C26_KillChild$", "-test.count=1")
		cmd.Env = append(os.Environ(), "C26_CHILD_PATH="+path, "VERIF_STATS_DIR=")
		stdin, err1 := cmd.StdinPipe()
		stdout, err2 := cmd.StdoutPipe()
		if err1 != nil || err2 != nil || cmd.Start() != nil {
			rec.Label("inconclusive:child-start")
			return
		}
		killed := false
		defer func() {
			if !killed {
				cmd.Process.Kill()
				cmd.Wait()
			}
		}()
		lines := make(chan string, 64)
		go func() {
			sc := bufio.NewScanner(stdout)
			for sc.Scan() {
				lines <- sc.Text()
			}
			close(lines)
		}()
		waitLine := func(want string) bool {
			deadline := time.After(30 * time.Second)
			for {
				select {
				case l, ok := <-lines:
					if !ok {
						return false
					}
					if strings.HasPrefix(l, "C26ERR") {
						fail("C26/child-op-error", "child reported %q", l)
					}
					if l == want {
						return true
					}
				case <-deadline:
					return false
				}
			}
		}
		if !waitLine("C26READY") {
			rec.Label("inconclusive:child-not-ready")
			return
		}
		send := func(op c26Op) {
			switch op.Kind {
			case "enq":
				fmt.Fprintf(stdin, "enq %d x%s\n", op.Idx, hex.EncodeToString(op.Data))
			case "del":
				fmt.Fprintf(stdin, "del %d\n", op.Idx)
			default:
				fmt.Fprintf(stdin, "%s\n", op.Kind)
			}
		}
		for i := 0; i < k; i++ {
			send(ops[i])
			if !waitLine("C26ACK") {
				rec.Label("inconclusive:child-no-ack")
				return
			}
		}
		for i := k; i < k+burst; i++ {
			send(ops[i])
		}
		if killDelay > 0 {
			time.Sleep(killDelay)
		}
		cmd.Process.Signal(syscall.SIGKILL)
		cmd.Wait()
		killed = true

		q, err := NewQueue(path)
		if err != nil {
			fail("C26/open-failed", "queue cannot be reopened after the process was killed: %v", err)
		}
		defer q.Close()
		var final *c26Model
		took := -1
		_, msgA := c26SameState(q, states[k])
		for j := k; j <= k+burst; j++ {
			if sig, _ := c26SameState(q, states[j]); sig == "" {
				final, took = states[j].clone(), j-k
				break
			}
		}
		if final == nil {
			sig := "C26/state-after-kill-unexplained"
			if len(states[k].items) > q.Len() && len(states[k+burst].items) > q.Len() {
				sig = "C26/acked-item-lost"
			}
			fail(sig, "state after kill (Len=%d) matches none of the model states after %d acknowledged ops plus 0..%d released ops; after acked ops: %s (%s); after all released ops: %s", q.Len(), k, burst, states[k], msgA, states[k+burst])
		}
		final.reopen()
		// the two candidate states can have equal queries but different data: emission decides
		for {
			_, has := final.next()
			if !has {
				break
			}
			if sig, msg := c26Consume(q, final); sig != "" {
				fail(sig, "emission after kill: %s", msg)
			}
		}
		if sig, msg := c26Consume(q, final); sig != "" {
			fail(sig, "emission after kill: %s", msg)
		}
		// duplicate rule still holds
		if final.highest > 0 {
			if err := q.Enqueue(&Event{Index: final.highest, Data: []byte("dup")}); err != nil {
				fail("C26/enqueue-error", "Enqueue after kill: %v", err)
			}
			final.enqueue(final.highest, []byte("dup"))
		}
		if err := q.Enqueue(&Event{Index: final.highest + 1, Data: []byte("new")}); err != nil {
			fail("C26/enqueue-error", "Enqueue after kill: %v", err)
		}
		final.enqueue(final.highest+1, []byte("new"))
		if sig, msg := c26CheckQueries(q, final); sig != "" {
			fail(sig, "after kill + probe enqueues: %s", msg)
		}
		if sig, msg := c26Consume(q, final); sig != "" {
			fail(sig, "after kill + probe enqueues: %s", msg)
		}

		hasEnq, hasDel := false, false
		for i := 0; i < k; i++ {
			if ops[i].Kind == "enq" && len(states[i+1].items) > len(states[i].items) {
				hasEnq = true
			}
			if ops[i].Kind == "del" {
				hasDel = true
			}
		}
		mut := false
		for i := k; i < k+burst; i++ {
			if ops[i].Kind == "enq" || ops[i].Kind == "del" {
				mut = true
			}
		}
		rec.Case(hasEnq && hasDel && mut, canon+fmt.Sprintf(" delay=%v", killDelay))
		rec.Sample(canon)
		rec.Label(fmt.Sprintf("released-ops-that-took-effect=%d-of-%d", took, burst))
		if took > 0 && took < burst {
			rec.Label("killed-between-released-ops")
		}
	})
}

// ---------------------------------------------------------------------------
// Free-running: producers, a consumer that deletes what it has received (the
// way the CDC service does) and a reader of the queries.

func TestVerif_C26_Stress(t *testing.T) {
	rec := vstat.New(t, "C26", "stress",
		"free-running: 2-4 producers enqueue 5..25 items each with globally unique indexes drawn from a shared counter (so arrival order differs from index order and some enqueues are legitimately ignored), one consumer receives events and calls DeleteRange(last received) every 1..5 events, one goroutine polls Len/FirstKey/HighestKey; judged: received indexes strictly increase, every received event carries the data enqueued for its index, an enqueue that returned before any higher-index enqueue started is always received (not lost), nothing is received twice, HighestKey never decreases and ends at the largest enqueued index; non-trivial = at least one enqueue was overtaken by a higher index and at least one DeleteRange ran while producers were active; distinct by parameters")
	rapid.Check(t, func(rt *rapid.T) {
		dir, err := os.MkdirTemp("", "c26s-")
		if err != nil {
			rec.Label("inconclusive:no-temp-dir")
			return
		}
		defer os.RemoveAll(dir)
		q, err := NewQueue(filepath.Join(dir, "fifo.db"))
		if err != nil {
			rt.Fatalf("%s", rec.Violation("C26/open-failed", "NewQueue: %v", err))
		}
		defer q.Close()
		nP := rapid.IntRange(2, 4).Draw(rt, "producers")
		per := make([]int, nP)
		total := 0
		for i := range per {
			per[i] = rapid.IntRange(5, 25).Draw(rt, "n")
			total += per[i]
		}
		delEvery := rapid.IntRange(1, 5).Draw(rt, "delEvery")
		canon := fmt.Sprintf("producers=%v delEvery=%d", per, delEvery)

		type enq struct {
			idx         uint64
			call, ret   int64
			data        []byte
			mustBeStored bool
		}
		var clk atomic.Int64
		var counter atomic.Uint64
		var mu sync.Mutex
		var enqs []*enq
		var prodActive atomic.Int32
		prodActive.Store(int32(nP))
		var wg sync.WaitGroup
		var enqErr atomic.Value
		for p := 0; p < nP; p++ {
			wg.Add(1)
			go func(p int) {
				defer wg.Done()
				defer prodActive.Add(-1)
				for i := 0; i < per[p]; i++ {
					idx := counter.Add(1)
					e := &enq{idx: idx, data: []byte(fmt.Sprintf("p%d-%d-%d", p, i, idx))}
					e.call = clk.Add(1)
					if err := q.Enqueue(&Event{Index: idx, Data: e.data}); err != nil {
						enqErr.Store(err.Error())
						return
					}
					e.ret = clk.Add(1)
					mu.Lock()
					enqs = append(enqs, e)
					mu.Unlock()
				}
			}(p)
		}
		// query poller
		stopPoll := make(chan struct{})
		pollDone := make(chan struct{})
		var pollBad atomic.Value
		go func() {
			defer close(pollDone)
			var lastH uint64
			for {
				select {
				case <-stopPoll:
					return
				default:
				}
				h, err := q.HighestKey()
				if err == nil {
					if h < lastH {
						pollBad.Store(fmt.Sprintf("HighestKey went from %d to %d", lastH, h))
					}
					lastH = h
				}
				fk, _ := q.FirstKey()
				if fk > h && err == nil {
					// FirstKey read after HighestKey: may only be larger if new items arrived; then it is <= new highest
					if h2, _ := q.HighestKey(); fk > h2 {
						pollBad.Store(fmt.Sprintf("FirstKey %d above HighestKey %d", fk, h2))
					}
				}
				q.Len()
				time.Sleep(50 * time.Microsecond)
			}
		}()
		// consumer
		var received []*Event
		consDone := make(chan struct{})
		stopCons := make(chan struct{})
		delsWhileActive := 0
		go func() {
			defer close(consDone)
			n := 0
			for {
				select {
				case ev, ok := <-q.C:
					if !ok {
						return
					}
					received = append(received, ev)
					n++
					if n%delEvery == 0 {
						if prodActive.Load() > 0 {
							delsWhileActive++
						}
						q.DeleteRange(ev.Index)
					}
				case <-stopCons:
					return
				}
			}
		}()
		prodDone := make(chan struct{})
		go func() { wg.Wait(); close(prodDone) }()
		select {
		case <-prodDone:
		case <-time.After(3 * c26Proceed):
			close(stopCons)
			close(stopPoll)
			rec.Label("inconclusive:producers-stuck")
			return
		}
		// wait until the consumer has seen the largest index (it is always must-store)
		maxIdx := counter.Load()
		deadline := time.Now().Add(c26Proceed)
		for {
			if !q.HasNext() {
				break
			}
			if time.Now().After(deadline) {
				break
			}
			time.Sleep(200 * time.Microsecond)
		}
		// HasNext false means the manager holds no head: everything was handed over
		close(stopCons)
		<-consDone
		close(stopPoll)
		<-pollDone
		if e := enqErr.Load(); e != nil {
			rt.Fatalf("%s", rec.Violation("C26/enqueue-error", "Enqueue failed: %v; %s", e, canon))
		}
		if b := pollBad.Load(); b != nil {
			rt.Fatalf("%s", rec.Violation("C26/highest-mismatch", "%v; %s", b, canon))
		}
		// classify enqueues
		byIdx := map[uint64]*enq{}
		overtaken := 0
		for _, e := range enqs {
			byIdx[e.idx] = e
		}
		for _, e := range enqs {
			e.mustBeStored = true
			for _, o := range enqs {
				if o.idx > e.idx && o.call < e.ret {
					e.mustBeStored = false
					break
				}
			}
			if !e.mustBeStored {
				overtaken++
			}
		}
		got := map[uint64]bool{}
		var last uint64
		for i, ev := range received {
			e := byIdx[ev.Index]
			if e == nil {
				rt.Fatalf("%s", rec.Violation("C26/emitted-deleted-or-unknown", "received index %d that was never enqueued; %s", ev.Index, canon))
			}
			if !bytes.Equal(ev.Data, e.data) {
				rt.Fatalf("%s", rec.Violation("C26/data-mismatch", "index %d carries %q, enqueued %q; %s", ev.Index, ev.Data, e.data, canon))
			}
			if got[ev.Index] {
				rt.Fatalf("%s", rec.Violation("C26/emitted-twice", "index %d received twice in one open; %s", ev.Index, canon))
			}
			if i > 0 && ev.Index <= last {
				rt.Fatalf("%s", rec.Violation("C26/emitted-out-of-order", "index %d received after %d; %s", ev.Index, last, canon))
			}
			got[ev.Index] = true
			last = ev.Index
		}
		for _, e := range enqs {
			if e.mustBeStored && !got[e.idx] {
				rt.Fatalf("%s", rec.Violation("C26/acked-item-lost", "enqueue of index %d was acknowledged before any higher index was offered, never deleted before being received, but was not emitted (received %d of %d, max %d); %s", e.idx, len(received), total, maxIdx, canon))
			}
		}
		if h, _ := q.HighestKey(); h != maxIdx {
			rt.Fatalf("%s", rec.Violation("C26/highest-mismatch", "HighestKey()=%d after enqueuing up to %d; %s", h, maxIdx, canon))
		}
		rec.Case(overtaken > 0 && delsWhileActive > 0, canon)
		rec.Sample(canon)
		if overtaken > 0 {
			rec.Label("enqueue-overtaken-by-higher-index")
		}
		if delsWhileActive > 0 {
			rec.Label("delete-while-producing")
		}
		rec.LabelN("received", len(received))
		rec.LabelN("enqueued", total)
	})
}

// ---------------------------------------------------------------------------
// Enqueue requests that wait together. The manager goroutine is parked on an
// unread query response (white-box: the request is put on queryChan directly),
// then 2..8 Enqueue calls are issued from separate goroutines one after the
// other, each only after the previous one is seen in the request channel, so
// the order in which the requests were accepted is known. After release the
// queue must be in the state the sequential model reaches by applying the
// enqueues in that order ("ignores any enqueue at or below the highest index
// it has ever stored" - ever includes the requests accepted just before).
// Assumption (stated in checks.d): requests take effect in the order in which
// they entered the queue's request channel (single-goroutine manager).

func TestVerif_C26_Batch(t *testing.T) {
	rec := vstat.New(t, "C26", "batch",
		"1..3 rounds per case on one on-disk Queue: the manager goroutine is parked on an unread query response, 2..8 Enqueue calls (indexes highest-2..highest+6, so decreasing/equal/increasing runs and duplicates with different data are common) are queued from separate goroutines in a known order, the manager is released; afterwards queries, emission, a generated DeleteRange, and after the last round close+reopen with full emission are compared with the sequential model applied in acceptance order; non-trivial = some round queued a lower or equal index after a higher one that was itself above the previous highest; distinct by rounds")
	rapid.Check(t, func(rt *rapid.T) {
		dir, err := os.MkdirTemp("", "c26b-")
		if err != nil {
			rec.Label("inconclusive:no-temp-dir")
			return
		}
		defer os.RemoveAll(dir)
		path := filepath.Join(dir, "fifo.db")
		q, err := NewQueue(path)
		if err != nil {
			rt.Fatalf("%s", rec.Violation("C26/open-failed", "NewQueue: %v", err))
		}
		defer func() { q.Close() }()
		m := &c26Model{items: map[uint64][]byte{}}
		m.reopen()
		var trace []string
		fail := func(sig, f string, a ...any) {
			rt.Fatalf("%s", rec.Violation(sig, f+" :: trace=%s", append(a, strings.Join(trace, " "))...))
		}
		pre := rapid.IntRange(0, 3).Draw(rt, "pre")
		for i := 0; i < pre; i++ {
			idx := m.highest + uint64(rapid.IntRange(1, 3).Draw(rt, "up"))
			d := []byte(fmt.Sprintf("pre%d", idx))
			trace = append(trace, fmt.Sprintf("enq(%d)", idx))
			if err := q.Enqueue(&Event{Index: idx, Data: d}); err != nil {
				fail("C26/enqueue-error", "Enqueue: %v", err)
			}
			m.enqueue(idx, d)
		}
		rounds := rapid.IntRange(1, 3).Draw(rt, "rounds")
		inversions := 0
		for r := 0; r < rounds; r++ {
			n := rapid.IntRange(2, 8).Draw(rt, "n")
			type pend struct {
				idx  uint64
				data []byte
				errc chan error
			}
			var ps []*pend
			for i := 0; i < n; i++ {
				base := int64(m.highest) + int64(rapid.IntRange(-2, 6).Draw(rt, "delta"))
				if base < 0 {
					base = 0
				}
				ps = append(ps, &pend{idx: uint64(base), data: []byte(fmt.Sprintf("r%d.%d@%d", r, i, base)), errc: make(chan error, 1)})
			}
			park := queryReq{respChan: make(chan queryResp)}
			select {
			case q.queryChan <- park:
			case <-time.After(c26Proceed):
				rec.Label("inconclusive:manager-did-not-take-query")
				return
			}
			var tr []string
			ok := true
			for i, p := range ps {
				go func(p *pend) { p.errc <- q.Enqueue(&Event{Index: p.idx, Data: p.data}) }(p)
				deadline := time.Now().Add(c26Proceed)
				for len(q.enqueueChan) != i+1 {
					if time.Now().After(deadline) {
						ok = false
						break
					}
					time.Sleep(100 * time.Microsecond)
				}
				if !ok {
					break
				}
				tr = append(tr, fmt.Sprint(p.idx))
			}
			<-park.respChan // release the manager
			if !ok {
				for _, p := range ps {
					select {
					case <-p.errc:
					case <-time.After(time.Second):
					}
				}
				rec.Label("inconclusive:request-not-seen-in-channel")
				return
			}
			trace = append(trace, "queued["+strings.Join(tr, ",")+"]")
			for _, p := range ps {
				select {
				case err := <-p.errc:
					if err != nil {
						fail("C26/enqueue-error", "Enqueue(%d): %v", p.idx, err)
					}
				case <-time.After(c26Proceed):
					fail("C26/enqueue-error", "Enqueue(%d) did not return within %v after the manager was released", p.idx, c26Proceed)
				}
			}
			runMax := m.highest
			for _, p := range ps {
				if p.idx <= runMax && p.idx > m.highest {
					inversions++ // lower/equal after a higher one, both above the old highest
				}
				if p.idx > runMax {
					runMax = p.idx
				}
			}
			for _, p := range ps {
				m.enqueue(p.idx, p.data)
			}
			if sig, msg := c26CheckQueries(q, m); sig != "" {
				fail(sig, "after the queued enqueues took effect: %s", msg)
			}
			switch rapid.IntRange(0, 3).Draw(rt, "then") {
			case 0:
				trace = append(trace, "consume")
				if sig, msg := c26Consume(q, m); sig != "" {
					fail(sig, "%s", msg)
				}
			case 1:
				trace = append(trace, "drain")
				for {
					if _, has := m.next(); !has {
						break
					}
					if sig, msg := c26Consume(q, m); sig != "" {
						fail(sig, "%s", msg)
					}
				}
			case 2:
				ks := m.keys()
				if len(ks) > 0 {
					i := ks[rapid.IntRange(0, len(ks)-1).Draw(rt, "delk")]
					trace = append(trace, fmt.Sprintf("del(%d)", i))
					if err := q.DeleteRange(i); err != nil {
						fail("C26/delete-error", "DeleteRange(%d): %v", i, err)
					}
					m.deleteRange(i)
				}
			}
			if sig, msg := c26CheckQueries(q, m); sig != "" {
				fail(sig, "%s", msg)
			}
		}
		for {
			if _, has := m.next(); !has {
				break
			}
			if sig, msg := c26Consume(q, m); sig != "" {
				fail(sig, "drain: %s", msg)
			}
		}
		if sig, msg := c26Consume(q, m); sig != "" {
			fail(sig, "after drain: %s", msg)
		}
		trace = append(trace, "reopen")
		q.Close()
		q, err = NewQueue(path)
		if err != nil {
			fail("C26/open-failed", "reopen: %v", err)
		}
		m.reopen()
		if sig, msg := c26CheckQueries(q, m); sig != "" {
			fail(sig, "after reopen: %s", msg)
		}
		for {
			if _, has := m.next(); !has {
				break
			}
			if sig, msg := c26Consume(q, m); sig != "" {
				fail(sig, "after reopen: %s", msg)
			}
		}
		rec.Case(inversions > 0, strings.Join(trace, " "))
		rec.Sample(strings.Join(trace, " "))
		if inversions > 0 {
			rec.Label("lower-or-equal-queued-after-higher")
		}
	})
}
