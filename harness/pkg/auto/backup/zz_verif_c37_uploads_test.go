package backup

// C37: whenever the database has changed since the last successful automatic
// upload, the next upload round uploads a backup that contains every change up
// to the index it is labelled with, and rounds with no change upload nothing.
// A failed upload is retried on a later round rather than being recorded as
// done.
//
// System under test: the real Uploader (single rounds through the unexported
// upload method) over the real store.Provider over a real single-node
// store.Store. Only the storage service is fake (records uploads, injects
// generated failures).
//
// Generator: a sequence of operations
//   writes   Execute requests (single / multi-statement, with / without
//            transaction), unified Request mixing a read and a write,
//            ineffective writes (UPDATE matching nothing, failing statement)
//   load     Store.Load of a generated SQLite file (through the log)
//   boot     Store.ReadFrom of a generated SQLite file (bypasses the log)
//   reads    query, noop, user snapshot                      (no change)
//   restart  close + reopen the store, new Provider + Uploader, same storage
//   round    one upload round with a generated storage fault (none, CurrentID
//            error, Upload error before / in the middle of / after reading)
//   cround   an upload round while a writer goroutine inserts rows
//   gateround  a write, then an upload round while a (public) binary backup
//            into a blocked writer holds the snapshot gate for longer than the
//            provider's whole retry budget: the round must fail or upload a
//            complete backup
//
// Oracle (independent model: the same SQL applied to a raw-driver in-memory
// database; load/boot replace the model by the loaded content):
//   * must-upload  an effective change (model dump differs) happened since the
//                  last successful upload => the round calls Upload;
//   * must-not     no write-type operation and no restart since the last
//                  successful upload => the round does not call Upload;
//   * otherwise    (only ineffective writes, or a restart without change, or
//                  nothing ever written) either is accepted;
//   * a successful upload's bytes (gunzipped if compressing) open with the raw
//     driver and dump equal to the model (sequential rounds); in concurrent
//     rounds every acknowledged concurrent insert whose raft index <= the
//     label is present and the rest of the content equals the model;
//   * an injected Upload failure makes the round return an error and leaves
//     the obligation to upload in place.

import (
	"bytes"
	"compress/gzip"
	"context"
	"database/sql"
	"errors"
	"fmt"
	"io"
	"log"
	"net"
	"os"
	"path/filepath"
	"strconv"
	"strings"
	"sync"
	"sync/atomic"
	"testing"
	"time"

	"github.com/rqlite/rqlite/v10/command/proto"
	"github.com/rqlite/rqlite/v10/internal/verif/vsql"
	"github.com/rqlite/rqlite/v10/internal/verif/vstat"
	"github.com/rqlite/rqlite/v10/store"
	"pgregory.net/rapid"
)

// ---- infrastructure ---------------------------------------------------------

type c37Layer struct{ ln net.Listener }

func (l *c37Layer) Dial(addr string, timeout time.Duration) (net.Conn, error) {
	return net.DialTimeout("tcp", addr, timeout)
}
func (l *c37Layer) Accept() (net.Conn, error) { return l.ln.Accept() }
func (l *c37Layer) Close() error              { return l.ln.Close() }
func (l *c37Layer) Addr() net.Addr            { return l.ln.Addr() }

func c37Logger(prefix string) *log.Logger {
	if os.Getenv("VERIF_DEBUG") != "" {
		return log.New(os.Stderr, prefix, log.LstdFlags|log.Lmicroseconds)
	}
	return log.New(io.Discard, prefix, 0)
}

type c37Node struct {
	s  *store.Store
	ly *c37Layer
}

func c37Open(id, dir string) (*c37Node, error) {
	// see g8bOpenSingle: a few attempts, wiping a directory that was empty before
	_, statErr := os.Stat(filepath.Join(dir, "raft.db"))
	fresh := statErr != nil
	var n *c37Node
	var err error
	for attempt := 0; attempt < 3; attempt++ {
		if n, err = c37OpenOnce(id, dir); err == nil {
			return n, nil
		}
		if fresh {
			os.RemoveAll(dir)
		}
		time.Sleep(200 * time.Millisecond)
	}
	return nil, err
}

func c37OpenOnce(id, dir string) (*c37Node, error) {
	ln, err := net.Listen("tcp", "127.0.0.1:0")
	if err != nil {
		return nil, err
	}
	ly := &c37Layer{ln}
	_, statErr := os.Stat(filepath.Join(dir, "raft.db"))
	existing := statErr == nil
	s := store.New(&store.Config{DBConf: store.NewDBConfig(), Dir: dir, ID: id, Logger: c37Logger("[store] ")}, ly)
	s.HeartbeatTimeout = 250 * time.Millisecond
	s.ElectionTimeout = 250 * time.Millisecond
	s.LeaderLeaseTimeout = 250 * time.Millisecond
	if err := s.Open(); err != nil {
		ln.Close()
		return nil, err
	}
	if !existing {
		if err := s.Bootstrap(store.NewServer(s.ID(), s.Addr(), true)); err != nil {
			s.Close(true)
			ln.Close()
			return nil, err
		}
	}
	if _, err := s.WaitForLeader(30 * time.Second); err != nil {
		s.Close(true)
		ln.Close()
		return nil, err
	}
	// After a restart the log tail is replayed asynchronously; the node is only
	// "up" for the purposes of this check once everything committed has been
	// applied (otherwise the applied index keeps moving for a while although no
	// operation of the history is running).
	if err := s.Barrier(); err != nil {
		s.Close(true)
		ln.Close()
		return nil, err
	}
	return &c37Node{s, ly}, nil
}

func (n *c37Node) close() {
	n.s.Close(true)
	n.ly.Close()
}

// fake storage service
type c37Fault int

const (
	c37None c37Fault = iota
	c37CurrentIDErr
	c37UploadErrBefore
	c37UploadErrMid
	c37UploadErrAfter
)

var c37FaultNames = []string{"none", "currentid-error", "upload-error-before-read", "upload-error-mid-read", "upload-error-after-read"}

var errC37Injected = errors.New("injected storage failure")

type c37Storage struct {
	mu sync.Mutex
	// persistent
	id   string
	data []byte
	has  bool
	// per round
	fault       c37Fault
	uploadCalls int
	idCalls     int
	lastOK      bool
}

func (c *c37Storage) String() string { return "c37-fake-storage" }

func (c *c37Storage) arm(f c37Fault) {
	c.mu.Lock()
	c.fault, c.uploadCalls, c.idCalls, c.lastOK = f, 0, 0, false
	c.mu.Unlock()
}

func (c *c37Storage) CurrentID(ctx context.Context) (string, error) {
	c.mu.Lock()
	defer c.mu.Unlock()
	c.idCalls++
	if c.fault == c37CurrentIDErr {
		return "", errC37Injected
	}
	if !c.has {
		return "", nil
	}
	return c.id, nil
}

func (c *c37Storage) Upload(ctx context.Context, r io.Reader, id string) error {
	c.mu.Lock()
	f := c.fault
	c.uploadCalls++
	c.mu.Unlock()
	switch f {
	case c37UploadErrBefore:
		return errC37Injected
	case c37UploadErrMid:
		io.CopyN(io.Discard, r, 1000)
		return errC37Injected
	}
	b, err := io.ReadAll(r)
	if err != nil {
		return err
	}
	if f == c37UploadErrAfter {
		return errC37Injected
	}
	c.mu.Lock()
	c.id, c.data, c.has, c.lastOK = id, b, true, true
	c.mu.Unlock()
	return nil
}

// c37BlockingWriter blocks in its first Write until release is closed.
type c37BlockingWriter struct {
	held, release chan struct{}
	once          sync.Once
}

func (w *c37BlockingWriter) Write(p []byte) (int, error) {
	w.once.Do(func() {
		close(w.held)
		<-w.release
	})
	return len(p), nil
}

// ---- model --------------------------------------------------------------------

type c37Model struct{ db *sql.DB }

func c37NewModel() (*c37Model, error) {
	db, err := vsql.OpenMem()
	if err != nil {
		return nil, err
	}
	return &c37Model{db}, nil
}

func (m *c37Model) exec(stmts ...string) error {
	for _, s := range stmts {
		if _, err := m.db.Exec(s); err != nil {
			return fmt.Errorf("model exec %q: %w", s, err)
		}
	}
	return nil
}

func (m *c37Model) dump() string {
	d, err := vsql.DumpDB(m.db)
	if err != nil {
		return "DUMP-ERROR " + err.Error()
	}
	return d
}

func (m *c37Model) replace(stmts []string) error {
	m.db.Close()
	db, err := vsql.OpenMem()
	if err != nil {
		return err
	}
	m.db = db
	return m.exec(stmts...)
}

// ---- operations -----------------------------------------------------------------

type c37Op struct {
	Kind  string   // write, request, nochange-write, failing-write, load, boot, query, noop, snapshot, restart, round, cround
	Stmts []string // write / request / load / boot content
	Tx    bool
	Fault c37Fault
	NConc int // cround: concurrent inserts attempted
}

func (o c37Op) String() string {
	switch o.Kind {
	case "write", "request", "nochange-write", "failing-write":
		return fmt.Sprintf("%s(tx=%v %s)", o.Kind, o.Tx, strings.Join(o.Stmts, "; "))
	case "load", "boot":
		return fmt.Sprintf("%s(%d stmts)", o.Kind, len(o.Stmts))
	case "round":
		return "round(" + c37FaultNames[o.Fault] + ")"
	case "cround":
		return fmt.Sprintf("cround(%s,n=%d)", c37FaultNames[o.Fault], o.NConc)
	}
	return o.Kind
}

func c37GenStmt(rt *rapid.T, serial *int) string {
	*serial++
	switch rapid.IntRange(0, 5).Draw(rt, "stmtKind") {
	case 0, 1, 2:
		return fmt.Sprintf("INSERT INTO t(v) VALUES('w%d')", *serial)
	case 3:
		return fmt.Sprintf("UPDATE t SET v='u%d' WHERE id=(SELECT min(id) FROM t)", *serial)
	case 4:
		return fmt.Sprintf("INSERT INTO t(v) SELECT 'x%d' WHERE NOT EXISTS (SELECT 1 FROM t WHERE v='x%d')", *serial, *serial)
	default:
		return "DELETE FROM t WHERE id=(SELECT max(id) FROM t) AND (SELECT count(*) FROM t)>1"
	}
}

func c37GenFile(rt *rapid.T, serial *int) []string {
	*serial++
	st := []string{"CREATE TABLE t(id INTEGER PRIMARY KEY, v TEXT)"}
	n := rapid.IntRange(0, 6).Draw(rt, "fileRows")
	for i := 0; i < n; i++ {
		st = append(st, fmt.Sprintf("INSERT INTO t(v) VALUES('f%d-%d')", *serial, i))
	}
	if rapid.Bool().Draw(rt, "fileExtraTable") {
		st = append(st, fmt.Sprintf("CREATE TABLE extra%d(a, b)", *serial), fmt.Sprintf("INSERT INTO extra%d VALUES(1, 'e')", *serial))
	}
	return st
}

func c37GenOps(rt *rapid.T) []c37Op {
	n := rapid.IntRange(4, vstat.Scale(14, 30)).Draw(rt, "nOps")
	serial := 0
	kinds := []string{"write", "write", "write", "request", "nochange-write", "failing-write", "load", "boot", "query", "noop", "snapshot", "restart", "round", "round", "round", "round", "cround"}
	var ops []c37Op
	for i := 0; i < n; i++ {
		o := c37Op{Kind: rapid.SampledFrom(kinds).Draw(rt, "kind")}
		switch o.Kind {
		case "write":
			k := rapid.IntRange(1, 3).Draw(rt, "nStmts")
			for j := 0; j < k; j++ {
				o.Stmts = append(o.Stmts, c37GenStmt(rt, &serial))
			}
			o.Tx = rapid.Bool().Draw(rt, "tx")
		case "request":
			serial++
			ins := fmt.Sprintf("INSERT INTO t(v) VALUES('r%d')", serial)
			if rapid.Bool().Draw(rt, "readFirst") {
				o.Stmts = []string{"SELECT count(*) FROM t", ins}
			} else {
				o.Stmts = []string{ins, "SELECT count(*) FROM t"}
			}
			o.Tx = rapid.Bool().Draw(rt, "tx")
		case "nochange-write":
			o.Stmts = []string{"UPDATE t SET v='never' WHERE id < 0"}
		case "failing-write":
			o.Stmts = []string{"INSERT INTO no_such_table VALUES(1)"}
		case "load", "boot":
			o.Stmts = c37GenFile(rt, &serial)
		case "round", "cround":
			o.Fault = c37Fault(rapid.SampledFrom([]int{0, 0, 0, 1, 2, 3, 4}).Draw(rt, "fault"))
			if o.Kind == "cround" {
				o.NConc = rapid.IntRange(3, 30).Draw(rt, "nConc")
			}
		}
		ops = append(ops, o)
	}
	// now and then: a round during which another backup holds the snapshot gate
	// for longer than the provider's whole retry budget (costs ~5.5 s)
	if rapid.IntRange(0, 5).Draw(rt, "gateRound") == 0 {
		pos := rapid.IntRange(0, len(ops)).Draw(rt, "gateRoundPos")
		ops = append(ops[:pos], append([]c37Op{{Kind: "gateround"}}, ops[pos:]...)...)
	}
	// always finish with two clean rounds so that every history is judged
	ops = append(ops, c37Op{Kind: "round"}, c37Op{Kind: "round"})
	return ops
}

func c37BuildFile(dir string, stmts []string) (string, error) {
	p := filepath.Join(dir, fmt.Sprintf("load-%d.db", time.Now().UnixNano()))
	db, err := vsql.Open(p)
	if err != nil {
		return "", err
	}
	defer db.Close()
	for _, s := range stmts {
		if _, err := db.Exec(s); err != nil {
			return "", err
		}
	}
	return p, nil
}

func c37ExecReq(stmts []string, tx bool) *proto.ExecuteRequest {
	ss := make([]*proto.Statement, len(stmts))
	for i := range stmts {
		ss[i] = &proto.Statement{Sql: stmts[i]}
	}
	return &proto.ExecuteRequest{Request: &proto.Request{Statements: ss, Transaction: tx}}
}

func c37Gunzip(b []byte) ([]byte, error) {
	zr, err := gzip.NewReader(bytes.NewReader(b))
	if err != nil {
		return nil, err
	}
	return io.ReadAll(zr)
}

// ---- the check ------------------------------------------------------------------

const (
	c37Must    = "must-upload"
	c37MustNot = "must-not-upload"
	c37May     = "may-upload"
)

func TestVerif_C37_Uploads(t *testing.T) {
	rec := vstat.New(t, "C37", "uploads",
		"operation sequences (4..14 ops quick, ..30 thorough, + 2 closing rounds) over real Store+Provider+Uploader with a fake storage whose initial content is generated (empty, or a predecessor's object with a non-numeric ID / an ID below, equal to or far above the local index): writes (single/multi, tx/non-tx, unified request), ineffective and failing writes, load, boot, query/noop/snapshot, restart, upload rounds with faults {none, CurrentID error, Upload error before/mid/after read}, rounds with a concurrent writer, now and then a round while another backup holds the snapshot gate beyond the retry budget; provider vacuum x compress generated; non-trivial = at least one round judged must-upload and one judged must-not-upload or faulted; distinct by the op sequence")
	rapid.Check(t, func(rt *rapid.T) {
		defer c37RecoverInfra(rec, t)
		vacuum := rapid.Bool().Draw(rt, "vacuum")
		compress := rapid.Bool().Draw(rt, "compress")
		ops := c37GenOps(rt)

		dir, err := os.MkdirTemp("", "c37-")
		if err != nil {
			c37Infra("tempdir")
		}
		defer os.RemoveAll(dir)
		dataDir := filepath.Join(dir, "node")
		n, err := c37Open("n1", dataDir)
		if err != nil {
			t.Logf("infrastructure: %v", err)
			c37Infra("store did not come up")
		}
		defer func() { n.close() }()
		model, err := c37NewModel()
		if err != nil {
			c37Infra("model")
		}
		defer func() { model.db.Close() }()

		ctx := context.Background()
		// What the storage service already holds when the node starts: nothing, or an
		// object left by a predecessor (a rebuilt / auto-restored cluster re-using the
		// bucket): ID not a number, below, equal to, or far above the local index.
		storage := &c37Storage{}
		initial := rapid.SampledFrom([]string{"empty", "empty", "non-numeric", "below", "equal", "far-above", "far-above"}).Draw(rt, "initialStorage")
		switch initial {
		case "non-numeric":
			storage.has, storage.id, storage.data = true, "backup-2024-01-01", []byte("predecessor")
		case "below":
			storage.has, storage.id, storage.data = true, "1", []byte("predecessor")
		case "equal":
			storage.has, storage.id, storage.data = true, "3", []byte("predecessor") // the index of the first write below
		case "far-above":
			storage.has, storage.id, storage.data = true, strconv.Itoa(rapid.IntRange(50, 5000000).Draw(rt, "initialID")), []byte("predecessor")
		}
		rec.Label("initial-storage:" + initial)
		uploadedOnce := false // some round of this history stored an object
		newUploader := func() *Uploader {
			u := NewUploader(storage, store.NewProvider(n.s, vacuum, compress), time.Hour)
			u.logger = c37Logger("[uploader] ")
			return u
		}
		up := newUploader()

		// initial schema: a change like any other
		if _, _, err := n.s.Execute(ctx, c37ExecReq([]string{"CREATE TABLE t(id INTEGER PRIMARY KEY, v TEXT)", "INSERT INTO t(v) VALUES('init')"}, true)); err != nil {
			c37Infra("setup write failed")
		}
		if err := model.exec("CREATE TABLE t(id INTEGER PRIMARY KEY, v TEXT)", "INSERT INTO t(v) VALUES('init')"); err != nil {
			t.Fatalf("harness: %v", err)
		}

		// obligation tracking
		changed := true // effective change since last successful upload
		lastChangeKind := "write"
		writeOps := true   // any write-type op since last successful upload
		restarted := false // restart since last successful upload
		var trace []string
		nMust, nMustNot, nFaulted := 0, 0, 0
		croundNo := 0

		fail := func(sig, what, format string, args ...any) {
			if rec.KnownHit(sig, what) {
				return
			}
			rt.Fatalf("%s", rec.Violation(sig, format+"\nvacuum=%v compress=%v history:\n  %s", append(args, vacuum, compress, strings.Join(trace, "\n  "))...))
		}

		for _, o := range ops {
			trace = append(trace, o.String())
			rec.Label("op:" + o.Kind)
			afterUpload := func() {}
			if o.Kind == "gateround" {
				held := make(chan struct{})
				release := make(chan struct{})
				hdone := make(chan struct{})
				bw := &c37BlockingWriter{held: held, release: release}
				go func() {
					defer close(hdone)
					n.s.Backup(ctx, &proto.BackupRequest{Format: proto.BackupRequest_BACKUP_REQUEST_FORMAT_BINARY}, bw)
					bw.once.Do(func() { close(held) })
				}()
				select {
				case <-held:
				case <-time.After(60 * time.Second):
					close(release)
					<-hdone
					c37Infra("gate holder did not start")
				}
				var once sync.Once
				afterUpload = func() { once.Do(func() { close(release); <-hdone }) }
				// the database changes while the gate is held
				g := fmt.Sprintf("INSERT INTO t(v) VALUES('g%d')", len(trace))
				if _, _, err := n.s.Execute(ctx, c37ExecReq([]string{g}, false)); err != nil {
					afterUpload()
					c37Infra("execute failed")
				}
				if err := model.exec(g); err != nil {
					t.Fatalf("harness: %v", err)
				}
				changed, lastChangeKind, writeOps = true, "write", true
				o.Kind = "round"
				rec.Label("round-with-gate-held")
			}
			before := model.dump()
			switch o.Kind {
			case "write", "nochange-write", "failing-write":
				res, _, err := n.s.Execute(ctx, c37ExecReq(o.Stmts, o.Tx))
				if err != nil {
					t.Logf("infrastructure: execute: %v", err)
					c37Infra("execute failed")
				}
				if o.Kind != "failing-write" {
					for _, r := range res {
						if r.GetError() != "" || r.GetE().GetError() != "" {
							t.Fatalf("harness: statement unexpectedly failed: %v (%v)", r, o.Stmts)
						}
					}
					if err := model.exec(o.Stmts...); err != nil {
						t.Fatalf("harness: %v", err)
					}
				}
				writeOps = true
			case "request":
				ss := make([]*proto.Statement, len(o.Stmts))
				for i := range o.Stmts {
					ss[i] = &proto.Statement{Sql: o.Stmts[i]}
				}
				res, _, _, err := n.s.Request(ctx, &proto.ExecuteQueryRequest{Request: &proto.Request{Statements: ss, Transaction: o.Tx}, Level: proto.ConsistencyLevel_STRONG})
				if err != nil {
					t.Logf("infrastructure: request: %v", err)
					c37Infra("request failed")
				}
				for _, r := range res {
					if r.GetError() != "" || r.GetE().GetError() != "" {
						t.Fatalf("harness: request statement unexpectedly failed: %v", r)
					}
				}
				for _, s := range o.Stmts {
					if strings.HasPrefix(s, "INSERT") {
						if err := model.exec(s); err != nil {
							t.Fatalf("harness: %v", err)
						}
					}
				}
				writeOps = true
			case "load", "boot":
				p, err := c37BuildFile(dir, o.Stmts)
				if err != nil {
					t.Fatalf("harness: build file: %v", err)
				}
				if o.Kind == "load" {
					b, _ := os.ReadFile(p)
					if err := n.s.Load(ctx, &proto.LoadRequest{Data: b}); err != nil {
						t.Logf("infrastructure: load: %v", err)
						c37Infra("load failed")
					}
				} else {
					f, err := os.Open(p)
					if err != nil {
						t.Fatalf("harness: %v", err)
					}
					_, err = n.s.ReadFrom(f)
					f.Close()
					if err != nil {
						t.Logf("infrastructure: boot: %v", err)
						c37Infra("boot failed")
					}
				}
				os.Remove(p)
				if err := model.replace(o.Stmts); err != nil {
					t.Fatalf("harness: %v", err)
				}
				writeOps = true
			case "query":
				ss := []*proto.Statement{{Sql: "SELECT count(*) FROM t"}}
				if _, _, _, err := n.s.Query(ctx, &proto.QueryRequest{Request: &proto.Request{Statements: ss}, Level: proto.ConsistencyLevel_STRONG}); err != nil {
					c37Infra("query failed")
				}
			case "noop":
				if af, err := n.s.Noop("c37"); err == nil {
					af.Error()
				}
			case "snapshot":
				n.s.Snapshot(0) // "nothing new to snapshot" is fine
			case "restart":
				n.close()
				n, err = c37Open("n1", dataDir)
				if err != nil {
					t.Logf("infrastructure: reopen: %v", err)
					n, err = c37Open("n1-spare", filepath.Join(dir, "spare")) // keep the deferred close valid
					if err != nil {
						t.Fatalf("harness: cannot reopen any store: %v", err)
					}
					c37Infra("store did not reopen")
				}
				up = newUploader()
				restarted = true
			case "round", "cround":
				// classify the obligation
				exp := c37May
				if changed {
					exp = c37Must
				} else if !writeOps && !restarted && uploadedOnce {
					exp = c37MustNot
				}
				storage.arm(o.Fault)
				storage.mu.Lock()
				idAtStart := ""
				if storage.has {
					idAtStart = storage.id
				}
				storage.mu.Unlock()

				// concurrent writer
				type ack struct {
					v   string
					idx uint64
				}
				var acks []ack
				var attempted []string
				stop := make(chan struct{})
				wdone := make(chan struct{})
				prefix := ""
				if o.Kind == "cround" {
					croundNo++
					prefix = fmt.Sprintf("c%d-", croundNo)
					started := make(chan struct{})
					var once sync.Once
					var firstAcked atomic.Bool
					go func() {
						defer close(wdone)
						defer once.Do(func() { close(started) })
						for i := 0; i < o.NConc; i++ {
							select {
							case <-stop:
								return
							default:
							}
							v := fmt.Sprintf("%s%d", prefix, i)
							attempted = append(attempted, v)
							res, idx, err := n.s.Execute(ctx, c37ExecReq([]string{fmt.Sprintf("INSERT INTO t(v) VALUES('%s')", v)}, false))
							if err == nil && len(res) == 1 && res[0].GetError() == "" && res[0].GetE().GetError() == "" {
								acks = append(acks, ack{v, idx})
								firstAcked.Store(true)
							}
							once.Do(func() { close(started) })
						}
					}()
					<-started
					if firstAcked.Load() {
						// an insert was acknowledged before the round begins
						exp = c37Must
						lastChangeKind = "concurrent-write"
					}
				} else {
					close(wdone)
				}

				uerr := up.upload(ctx)
				afterUpload()

				close(stop)
				<-wdone
				storage.mu.Lock()
				calls, ok, label, data := storage.uploadCalls, storage.lastOK, storage.id, storage.data
				storage.mu.Unlock()

				// the model learns about the concurrent inserts (all attempted ones were
				// either acknowledged or failed outright; a failure is infrastructure)
				if o.Kind == "cround" {
					if len(acks) != len(attempted) {
						c37Infra("concurrent insert failed")
					}
					for _, a := range acks {
						if err := model.exec(fmt.Sprintf("INSERT INTO t(v) VALUES('%s')", a.v)); err != nil {
							t.Fatalf("harness: %v", err)
						}
					}
					if len(acks) > 0 {
						writeOps = true
					}
				}

				rec.Label("round:" + exp)
				rec.Label("fault:" + c37FaultNames[o.Fault])
				switch exp {
				case c37Must:
					nMust++
				case c37MustNot:
					nMustNot++
				}
				if o.Fault != c37None {
					nFaulted++
				}
				trace[len(trace)-1] += fmt.Sprintf(" -> expect=%s uploadCalls=%d ok=%v label=%q err=%v", exp, calls, ok, label, uerr)

				if calls > 1 {
					fail("C37/double-upload", "one round uploads more than once", "round called Upload %d times", calls)
					return
				}
				if exp == c37Must && calls == 0 {
					if uerr != nil && !errors.Is(uerr, errC37Injected) {
						rec.Label("round-error-before-upload")
						break // e.g. the backup could not be produced; the obligation stays
					}
					if uerr == nil && o.Fault != c37CurrentIDErr && idAtStart == strconv.FormatUint(n.s.DBAppliedIndex(), 10) {
						// the storage already holds an object labelled with exactly this index:
						// the documented first-round double check may skip
						rec.Label("round-skipped-storage-has-this-index")
						changed, writeOps, restarted = false, false, false
						continue
					}
					fail("C37/change-not-uploaded/"+lastChangeKind, "database changed by "+lastChangeKind+" since the last successful upload but the round uploads nothing",
						"database changed (last change: %s) since the last successful upload, but the round uploaded nothing (err=%v)", lastChangeKind, uerr)
					return
				}
				if exp == c37MustNot && calls > 0 {
					fail("C37/upload-without-change", "a round with no write since the last successful upload uploads anyway",
						"no write-type operation since the last successful upload, but the round called Upload (label %q)", label)
					return
				}
				if calls == 1 && !ok {
					// injected failure: must be reported, obligation stays
					if uerr == nil {
						fail("C37/failed-upload-reported-ok", "upload round returns nil although the storage upload failed",
							"storage Upload failed (%s) but the round returned nil", c37FaultNames[o.Fault])
						return
					}
					rec.Label("upload-failed-injected")
					break
				}
				if calls == 1 && ok {
					uploadedOnce = true
					rec.Label("upload-ok")
					if uerr != nil {
						fail("C37/ok-upload-reported-failed", "round returns an error although the upload succeeded", "upload stored but round returned %v", uerr)
						return
					}
					li, perr := strconv.ParseUint(label, 10, 64)
					if perr != nil {
						fail("C37/bad-label", "upload label is not an index", "label %q is not a decimal index", label)
						return
					}
					raw := data
					if compress {
						raw, err = c37Gunzip(data)
						if err != nil {
							fail("C37/upload-not-gzip", "compressed upload does not gunzip", "gunzip: %v", err)
							return
						}
					}
					upPath := filepath.Join(dir, "uploaded.db")
					os.WriteFile(upPath, raw, 0o644)
					udb, err := vsql.Open(upPath)
					if err != nil {
						fail("C37/upload-not-a-database", "uploaded bytes do not open as SQLite", "open uploaded: %v", err)
						return
					}
					missingLater := false
					if o.Kind == "cround" {
						present := map[string]bool{}
						rows, err := udb.Query("SELECT v FROM t WHERE v LIKE ?", prefix+"%")
						if err == nil {
							for rows.Next() {
								var v string
								rows.Scan(&v)
								present[v] = true
							}
							rows.Close()
						}
						for _, a := range acks {
							if !present[a.v] {
								if a.idx <= li {
									udb.Close()
									fail("C37/upload-misses-change-below-label", "upload labelled i lacks a write acknowledged with index <= i",
										"upload labelled %d lacks row %q acknowledged at raft index %d", li, a.v, a.idx)
									return
								}
								missingLater = true
							}
						}
						for v := range present {
							found := false
							for _, a := range acks {
								if a.v == v {
									found = true
								}
							}
							if !found {
								udb.Close()
								fail("C37/upload-has-unknown-row", "upload contains a row nobody wrote", "upload contains row %q that was never acknowledged", v)
								return
							}
						}
						if _, err := udb.Exec("DELETE FROM t WHERE v LIKE ?", prefix+"%"); err != nil {
							t.Fatalf("harness: %v", err)
						}
						rec.Label(fmt.Sprintf("cround-upload-ok/missing-later=%v", missingLater))
					}
					got, derr := vsql.DumpDB(udb)
					udb.Close()
					os.Remove(upPath)
					if derr != nil {
						fail("C37/upload-not-a-database", "uploaded bytes do not dump", "dump uploaded: %v", derr)
						return
					}
					if got != before {
						fail("C37/upload-content-mismatch", "uploaded database differs from the committed state",
							"upload labelled %d differs from the committed state.\n--- uploaded\n%s--- expected\n%s", li, got, before)
						return
					}
					// obligation discharged (unless concurrent rows are still missing)
					changed, writeOps, restarted = missingLater, missingLater || (o.Kind == "cround" && len(acks) > 0), false
					if missingLater {
						lastChangeKind = "concurrent-write"
					}
					continue
				}
				// calls == 0, nothing uploaded
				if uerr != nil {
					rec.Label("round-error-no-upload")
				} else {
					rec.Label("round-skipped")
				}
				if o.Kind == "cround" && len(acks) > 0 {
					// rows were written during a round that uploaded nothing
					changed, lastChangeKind = true, "concurrent-write"
				}
				continue
			}
			// after a non-round op (or a round that left the obligation): effective change?
			if o.Kind != "round" && o.Kind != "cround" {
				if model.dump() != before {
					changed, lastChangeKind = true, o.Kind
				}
			} else if o.Kind == "cround" && len(trace) > 0 {
				// failed/errored concurrent round: the inserts are a change
				if model.dump() != before {
					changed, lastChangeKind = true, "concurrent-write"
				}
			}
		}
		canon := fmt.Sprintf("v=%v c=%v ", vacuum, compress)
		for _, o := range ops {
			canon += o.String() + ";"
		}
		rec.Case(nMust > 0 && (nMustNot > 0 || nFaulted > 0), canon)
		rec.Sample(strings.Join(trace, " | "))
	})
}

// c37InfraSkip unwinds a case that hit infrastructure trouble (a store that did
// not come up, a request that could not be served): the case is counted as
// inconclusive, it is neither a pass nor a violation.
type c37InfraSkip struct{ why string }

func c37Infra(why string) { panic(c37InfraSkip{why}) }

func c37RecoverInfra(rec *vstat.Rec, t *testing.T) {
	if r := recover(); r != nil {
		if s, ok := r.(c37InfraSkip); ok {
			rec.Label("inconclusive:infrastructure")
			t.Logf("inconclusive (infrastructure): %s", s.why)
			return
		}
		panic(r)
	}
}
