package store

// C21: every successful backup (binary, DELETE-mode, vacuumed, compressed, or
// SQL dump) is a complete database that is logically equal to the committed
// state at a single point in time, even while writes are in flight.
//
// Unit "local": a real single-node Store. A writer goroutine runs transfer
// transactions (one request each, Transaction=true) that move an amount
// between a row of acct_a and a row of acct_b and bump a version counter kept
// in both ver_a and ver_b. The writer is the only writer and issues transfers
// from a generated, fixed list, so the exact committed state after n transfers
// is known (state(n)). While it runs, backups are taken in generated
// format x flag combinations (binary / DELETE / SQL, vacuum, compress, leader
// flag, destination = memory buffer or *os.File, optional table list for SQL),
// with raft snapshots forced to happen concurrently (low thresholds). In "hook"
// mode the destination writer, on its first Write (mid-stream), waits until the
// writer goroutine has committed a few more transfers and calls
// Store.Snapshot(0) before letting the copy continue, so that a checkpoint of
// new commits into the main file is attempted inside the copy window.
// Row keys run from negative values through 0 to positive ones (and up to 1500
// rows per table); a WITHOUT ROWID table and a rowid table with explicit
// non-positive / sparse rowids carry static content.
//
// Oracle (independent: raw driver + arithmetic on the transfer list):
//   success => the bytes (gunzipped if compressed; an SQL dump is executed
//   into a fresh raw-driver database) open, PRAGMA integrity_check = ok,
//   ver_a == ver_b == n, n is between the last version acknowledged before the
//   backup started and the number of transfers issued when it returned, and
//   the COMPLETE logical content (every row of every table, schema objects)
//   equals that of a model database (the same statements on a raw-driver
//   in-memory database) advanced to n transfers. An error return is always
//   acceptable (counted).

import (
	"bytes"
	"compress/gzip"
	"context"
	"database/sql"
	"fmt"
	"io"
	"os"
	"path/filepath"
	"strings"
	"sync"
	"sync/atomic"
	"testing"
	"time"

	"github.com/rqlite/rqlite/v10/command/proto"
	"github.com/rqlite/rqlite/v10/internal/verif/vsql"
	"github.com/rqlite/rqlite/v10/internal/verif/vstat"
	"pgregory.net/rapid"
)

type c21Transfer struct {
	A, B int // row keys
	X    int // amount moved from acct_a[A] to acct_b[B]
}

type c21Backup struct {
	Format   string // binary, delete, sql
	Vacuum   bool
	Compress bool
	Leader   bool
	ToFile   bool
	Tables   bool // sql only: restrict to acct_a and the two version tables
	AfterMs  int  // pause before this backup
	Hook     bool // destination triggers commits + Store.Snapshot(0) on its first Write
	FailMode int  // 0: destination never fails; 1: fails after a fraction FailPm/1000 of the stream; 2: fails FailTail bytes before its end
	FailPm   int
	FailTail int
}

func (b c21Backup) String() string {
	return fmt.Sprintf("%s vacuum=%v gz=%v leader=%v file=%v tables=%v hook=%v fail=%d/%d/%d", b.Format, b.Vacuum, b.Compress, b.Leader, b.ToFile, b.Tables, b.Hook, b.FailMode, b.FailPm, b.FailTail)
}

func (b c21Backup) req() *proto.BackupRequest {
	br := &proto.BackupRequest{Vacuum: b.Vacuum, Compress: b.Compress, Leader: b.Leader}
	switch b.Format {
	case "binary":
		br.Format = proto.BackupRequest_BACKUP_REQUEST_FORMAT_BINARY
	case "delete":
		br.Format = proto.BackupRequest_BACKUP_REQUEST_FORMAT_DELETE
	default:
		br.Format = proto.BackupRequest_BACKUP_REQUEST_FORMAT_SQL
		if b.Tables {
			br.Tables = []string{"acct_a", "ver_a", "ver_b"} // (the indexed table must be included: a restricted dump still carries every index)
		}
	}
	return br
}

type c21Case struct {
	Rows      int
	Pad       int
	Transfers []c21Transfer
	Backups   []c21Backup
	SnapEvery int
}

func c21Gen(rt *rapid.T) c21Case {
	var c c21Case
	c.Rows = rapid.SampledFrom([]int{5, 50, 400, 1500}).Draw(rt, "rows")
	c.Pad = rapid.SampledFrom([]int{0, 40, 300}).Draw(rt, "pad")
	c.SnapEvery = rapid.SampledFrom([]int{0, 20, 60}).Draw(rt, "snapEvery")
	n := vstat.Scale(250, 1500)
	for i := 0; i < n; i++ {
		c.Transfers = append(c.Transfers, c21Transfer{
			A: rapid.IntRange(1, c.Rows).Draw(rt, "a"),
			B: rapid.IntRange(1, c.Rows).Draw(rt, "b"),
			X: rapid.IntRange(1, 9).Draw(rt, "x"),
		})
	}
	nb := rapid.IntRange(3, vstat.Scale(7, 14)).Draw(rt, "nBackups")
	for i := 0; i < nb; i++ {
		b := c21Backup{Format: rapid.SampledFrom([]string{"binary", "binary", "binary", "delete", "sql", "sql"}).Draw(rt, "format")}
		b.Compress = rapid.Bool().Draw(rt, "compress")
		b.Leader = rapid.Bool().Draw(rt, "leader")
		b.ToFile = rapid.Bool().Draw(rt, "toFile")
		if b.Format == "binary" {
			b.Vacuum = rapid.IntRange(0, 2).Draw(rt, "vacuum") == 0
		} else if b.Format == "delete" {
			b.Vacuum = rapid.IntRange(0, 4).Draw(rt, "vacuumDelete") == 0 // documented as invalid: must be an error
		} else {
			b.Tables = rapid.IntRange(0, 4).Draw(rt, "tables") == 0
		}
		b.AfterMs = rapid.IntRange(0, 15).Draw(rt, "afterMs")
		if !b.ToFile {
			switch rapid.IntRange(0, 4).Draw(rt, "dest") {
			case 0, 1:
				b.Hook = true
			case 2:
				b.FailMode, b.FailPm = 1, rapid.IntRange(0, 999).Draw(rt, "failPm")
			case 3:
				b.FailMode, b.FailTail = 2, rapid.IntRange(1, 64).Draw(rt, "failTail")
			}
		}
		c.Backups = append(c.Backups, b)
	}
	return c
}

const c21Initial = 1000

// c21Key maps a transfer's row number (1..Rows) to the row key: keys run from
// negative values through 0 to positive ones.
func c21Key(c c21Case, i int) int { return i - c.Rows/3 - 1 }

func c21TransferStmts(c c21Case, tr c21Transfer) []string {
	return []string{
		fmt.Sprintf("UPDATE acct_a SET bal = bal - %d WHERE k = %d", tr.X, c21Key(c, tr.A)),
		"UPDATE ver_a SET ver = ver + 1",
		fmt.Sprintf("UPDATE acct_b SET bal = bal + %d WHERE k = %d", tr.X, c21Key(c, tr.B)),
		"UPDATE ver_b SET ver = ver + 1",
	}
}

func c21Setup(c c21Case) []string {
	pad := strings.Repeat("p", c.Pad)
	setup := []string{
		"CREATE TABLE acct_a(k INTEGER PRIMARY KEY, bal INTEGER, pad TEXT)",
		"CREATE TABLE acct_b(k INTEGER PRIMARY KEY, bal INTEGER, pad TEXT)",
		"CREATE TABLE ver_a(ver INTEGER)",
		"CREATE TABLE ver_b(ver INTEGER)",
		"INSERT INTO ver_a VALUES(0)",
		"INSERT INTO ver_b VALUES(0)",
		"CREATE INDEX acct_a_bal ON acct_a(bal)",
		"CREATE TABLE wr(name TEXT PRIMARY KEY, v INTEGER) WITHOUT ROWID",
		"INSERT INTO wr VALUES('', 0),('a', 1),('b', -2),('zz', 3)",
		"CREATE TABLE gaps(v TEXT)",
		"INSERT INTO gaps(rowid, v) VALUES(-9223372036854775807,'min'),(-5,'neg'),(0,'zero'),(1,'one'),(7,'seven'),(5000,'far'),(4000000000,'big')",
	}
	for i := 1; i <= c.Rows; i += 100 {
		var va []string
		for j := i; j < i+100 && j <= c.Rows; j++ {
			va = append(va, fmt.Sprintf("(%d,%d,'%s')", c21Key(c, j), c21Initial, pad))
		}
		setup = append(setup, "INSERT INTO acct_a VALUES"+strings.Join(va, ","), "INSERT INTO acct_b VALUES"+strings.Join(va, ","))
	}
	return setup
}

// c21Content renders the complete logical content of the given tables (all
// columns of every row, ordered; rowids of tables without an INTEGER PRIMARY
// KEY are not content: neither VACUUM nor an SQL dump preserves them) plus the
// names of the schema objects.
func c21Content(db *sql.DB, restricted bool) (map[string][]string, error) {
	cols := map[string]string{
		"acct_a": "k||'|'||bal||'|'||quote(pad)",
		"acct_b": "k||'|'||bal||'|'||quote(pad)",
		"ver_a":  "ver",
		"ver_b":  "ver",
		"wr":     "quote(name)||'|'||v",
		"gaps":   "quote(v)",
	}
	tables := []string{"acct_a", "acct_b", "ver_a", "ver_b", "wr", "gaps"}
	if restricted {
		tables = []string{"acct_a", "ver_a", "ver_b"}
	}
	out := map[string][]string{}
	for _, t := range tables {
		rows, err := db.Query(fmt.Sprintf("SELECT %s FROM %s ORDER BY 1", cols[t], t))
		if err != nil {
			return nil, fmt.Errorf("%s: %w", t, err)
		}
		var lines []string
		for rows.Next() {
			var l sql.NullString
			if err := rows.Scan(&l); err != nil {
				rows.Close()
				return nil, err
			}
			lines = append(lines, l.String)
		}
		rows.Close()
		if err := rows.Err(); err != nil {
			return nil, err
		}
		out[t] = lines
	}
	if !restricted {
		rows, err := db.Query("SELECT type||' '||name FROM sqlite_master ORDER BY 1")
		if err != nil {
			return nil, err
		}
		var lines []string
		for rows.Next() {
			var l string
			rows.Scan(&l)
			lines = append(lines, l)
		}
		rows.Close()
		out["(schema objects)"] = lines
	}
	return out, nil
}

// c21FailWriter accepts limit bytes and then fails every Write.
type c21FailWriter struct {
	buf    bytes.Buffer
	limit  int
	failed bool
}

func (w *c21FailWriter) Write(p []byte) (int, error) {
	room := w.limit - w.buf.Len()
	if room >= len(p) {
		return w.buf.Write(p)
	}
	w.failed = true
	if room > 0 {
		w.buf.Write(p[:room])
	} else {
		room = 0
	}
	return room, fmt.Errorf("c21: destination full after %d bytes", w.limit)
}

type c21CountWriter struct{ n int }

func (w *c21CountWriter) Write(p []byte) (int, error) { w.n += len(p); return len(p), nil }

// c21HookWriter runs hook once, on the first Write.
type c21HookWriter struct {
	buf  bytes.Buffer
	once sync.Once
	hook func()
	n    int
}

func (w *c21HookWriter) Write(p []byte) (int, error) {
	w.once.Do(w.hook)
	w.n++
	return w.buf.Write(p)
}

func c21ReadVer(db *sql.DB, table string) (int, error) {
	rows, err := db.Query("SELECT ver FROM " + table)
	if err != nil {
		return 0, err
	}
	defer rows.Close()
	n, v := 0, 0
	for rows.Next() {
		if err := rows.Scan(&v); err != nil {
			return 0, err
		}
		n++
	}
	if n != 1 {
		return 0, fmt.Errorf("%s has %d rows", table, n)
	}
	return v, rows.Err()
}

// c21Open turns backup bytes into an open raw-driver database.
func c21Open(dir string, b c21Backup, data []byte) (*sql.DB, string, error) {
	if b.Compress {
		zr, err := gzip.NewReader(bytes.NewReader(data))
		if err != nil {
			return nil, "not-gzip", err
		}
		raw, err := io.ReadAll(zr)
		if err != nil {
			return nil, "gzip-truncated", err
		}
		data = raw
	}
	p := filepath.Join(dir, fmt.Sprintf("restored-%d.db", time.Now().UnixNano()))
	if b.Format == "sql" {
		db, err := vsql.Open(p)
		if err != nil {
			return nil, "harness", err
		}
		if _, err := db.Exec(string(data)); err != nil {
			db.Close()
			return nil, "dump-does-not-execute", err
		}
		return db, "", nil
	}
	if err := os.WriteFile(p, data, 0o644); err != nil {
		return nil, "harness", err
	}
	if ic, err := vsql.IntegrityCheck(p); err != nil || ic != "ok" {
		return nil, "integrity-check", fmt.Errorf("integrity_check: %q %v", ic, err)
	}
	db, err := vsql.Open(p)
	if err != nil {
		return nil, "does-not-open", err
	}
	return db, "", nil
}

func TestVerif_C21_Local(t *testing.T) {
	rec := vstat.New(t, "C21", "local",
		"real single-node Store; writer goroutine issuing a generated list of transfer transactions (acct_a -> acct_b, version counter in ver_a and ver_b) over tables of {5,50,400,1500} rows x padding {0,40,300} bytes; 3..7 (thorough ..14) backups per case in generated format {binary,delete,sql} x vacuum x compress x leader flag x destination {buffer,file,hooked writer that lets commits land and calls Store.Snapshot mid-copy, writer that fails after a generated fraction of the stream or 1..64 bytes before its end} x table list; row keys from negative through 0 to positive, a WITHOUT ROWID table, a rowid table with non-positive and sparse rowids; complete content compared; with forced raft snapshots every {never,20,60} entries; non-trivial = at least one successful backup was taken while the writer committed something between its start and end; distinct by (rows,pad,snap,backup list,first transfers)")
	rapid.Check(t, func(rt *rapid.T) {
		defer g8bRecoverInfra(rec, t)
		c := c21Gen(rt)
		dir, err := os.MkdirTemp("", "c21-")
		if err != nil {
			g8bInfra("tempdir")
		}
		defer os.RemoveAll(dir)
		n, err := g8bOpenSingle("", filepath.Join(dir, "node"), func(s *Store) {
			if c.SnapEvery > 0 {
				s.SnapshotThreshold = uint64(c.SnapEvery)
				s.SnapshotInterval = 20 * time.Millisecond
			}
		})
		if err != nil {
			t.Logf("infrastructure: %v", err)
			g8bInfra("store did not come up")
		}
		defer n.Close()
		s := n.S

		setup := c21Setup(c)
		model, err := vsql.OpenMem()
		if err != nil {
			g8bInfra("model")
		}
		defer model.Close()
		for _, st := range setup {
			if _, err := model.Exec(st); err != nil {
				t.Fatalf("harness: model setup: %v", err)
			}
		}
		modelVer := 0
		if _, _, err := g8bExec(s, true, setup...); err != nil {
			t.Logf("infrastructure: setup: %v", err)
			g8bInfra("setup failed")
		}

		// writer
		var acked, issued atomic.Int64
		stop := make(chan struct{})
		wdone := make(chan struct{})
		var werr error
		go func() {
			defer close(wdone)
			for i, tr := range c.Transfers {
				select {
				case <-stop:
					return
				default:
				}
				issued.Store(int64(i + 1))
				_, _, err := g8bExec(s, true, c21TransferStmts(c, tr)...)
				if err != nil {
					werr = err
					return
				}
				acked.Store(int64(i + 1))
			}
		}()
		stopWriter := func() {
			select {
			case <-stop:
			default:
				close(stop)
			}
			<-wdone
		}
		defer stopWriter()

		fail := func(sig, what, format string, args ...any) {
			stopWriter()
			if rec.KnownHit(sig, what) {
				return
			}
			rt.Fatalf("%s", rec.Violation(sig, format, args...))
		}

		nontrivial := false
		for bi, b := range c.Backups {
			if b.AfterMs > 0 {
				time.Sleep(time.Duration(b.AfterMs) * time.Millisecond)
			}
			ackedBefore := int(acked.Load())
			var data []byte
			var berr error
			if b.ToFile {
				f, err := os.CreateTemp(dir, "backup-")
				if err != nil {
					g8bInfra("tempfile")
				}
				berr = s.Backup(context.Background(), b.req(), f)
				f.Close()
				if berr == nil {
					data, err = os.ReadFile(f.Name())
					if err != nil {
						t.Fatalf("harness: %v", err)
					}
				}
				os.Remove(f.Name())
			} else if b.FailMode != 0 {
				// measure the stream, then let the destination fail inside it
				cw := &c21CountWriter{}
				if err := s.Backup(context.Background(), b.req(), cw); err != nil {
					rec.Label("backup-error")
					rec.Label("backup-error/" + b.Format)
					continue
				}
				limit := cw.n * b.FailPm / 1000
				if b.FailMode == 2 {
					limit = cw.n - b.FailTail
				}
				if limit < 0 {
					limit = 0
				}
				fw := &c21FailWriter{limit: limit}
				ackedBefore = int(acked.Load())
				berr = s.Backup(context.Background(), b.req(), fw)
				data = fw.buf.Bytes()
				if fw.failed {
					rec.Label("destination-failed/" + b.Format)
					if berr == nil {
						sig := "C21/destination-failure-reported-ok/" + b.Format
						if b.Compress {
							sig += "/compressed"
						}
						fail(sig, "Store.Backup returns nil although the destination writer failed",
							"backup #%d (%s) rows=%d pad=%d: the destination failed after %d of about %d bytes but Backup returned nil (%d bytes written)", bi+1, b, c.Rows, c.Pad, limit, cw.n, len(data))
						return
					}
					rec.Label("destination-failure-reported")
					continue
				}
			} else if b.Hook {
				hw := &c21HookWriter{}
				hw.hook = func() {
					// mid-stream: let the writer commit a few more transfers, then ask for
					// a snapshot (a checkpoint of those commits into the main file)
					base := acked.Load()
					deadline := time.Now().Add(2 * time.Second)
					for acked.Load() < base+3 && int(issued.Load()) < len(c.Transfers) && time.Now().Before(deadline) {
						time.Sleep(time.Millisecond)
					}
					if err := s.Snapshot(0); err == nil {
						rec.Label("hook-snapshot-done/" + b.Format)
					} else {
						rec.Label("hook-snapshot-refused/" + b.Format)
					}
				}
				berr = s.Backup(context.Background(), b.req(), hw)
				data = hw.buf.Bytes()
				if hw.n > 1 {
					rec.Label("hook-copy-spans-several-writes")
				}
			} else {
				var buf bytes.Buffer
				berr = s.Backup(context.Background(), b.req(), &buf)
				data = buf.Bytes()
			}
			issuedAfter := int(issued.Load())
			rec.Label("format=" + b.Format)
			if berr != nil {
				rec.Label("backup-error")
				rec.Label("backup-error/" + b.Format)
				continue
			}
			rec.Label("backup-ok")
			concurrent := issuedAfter > ackedBefore
			if concurrent {
				nontrivial = true
				rec.Label("backup-ok-with-concurrent-commit")
			}
			ctxs := fmt.Sprintf("backup #%d (%s) rows=%d pad=%d snapEvery=%d, acked before=%d, issued after=%d", bi+1, b, c.Rows, c.Pad, c.SnapEvery, ackedBefore, issuedAfter)

			db, why, err := c21Open(dir, b, data)
			if err != nil {
				if why == "harness" {
					t.Fatalf("harness: %v", err)
				}
				fail("C21/backup-unusable/"+why, "a backup reported as successful cannot be restored ("+why+")", "%s: %v (%d bytes)", ctxs, err, len(data))
				return
			}
			va, err1 := c21ReadVer(db, "ver_a")
			vb, err2 := c21ReadVer(db, "ver_b")
			if err1 != nil || err2 != nil {
				db.Close()
				fail("C21/backup-incomplete", "a successful backup lacks a table or row", "%s: ver_a: %v, ver_b: %v", ctxs, err1, err2)
				return
			}
			if va != vb {
				db.Close()
				fail("C21/mixed-points-in-time/"+b.Format, "a successful "+b.Format+" backup shows two tables at different versions", "%s: ver_a=%d but ver_b=%d", ctxs, va, vb)
				return
			}
			if va < ackedBefore || va > issuedAfter {
				db.Close()
				sig := "C21/backup-misses-acknowledged-writes/" + b.Format
				if va > issuedAfter {
					sig = "C21/backup-from-the-future"
				}
				fail(sig, "a successful backup does not contain writes acknowledged before it started", "%s: backup is at version %d", ctxs, va)
				return
			}
			// complete logical content against the model advanced to version va
			for modelVer < va {
				for _, st := range c21TransferStmts(c, c.Transfers[modelVer]) {
					if _, err := model.Exec(st); err != nil {
						t.Fatalf("harness: model: %v", err)
					}
				}
				modelVer++
			}
			if modelVer != va {
				t.Fatalf("harness: backup versions went backwards (%d after %d)", va, modelVer)
			}
			restricted := b.Format == "sql" && b.Tables
			got, err := c21Content(db, restricted)
			if err != nil {
				db.Close()
				fail("C21/backup-incomplete", "a successful backup lacks a table or row", "%s: %v", ctxs, err)
				return
			}
			want, err := c21Content(model, restricted)
			if err != nil {
				t.Fatalf("harness: model content: %v", err)
			}
			for _, tb := range []string{"(schema objects)", "ver_a", "ver_b", "wr", "gaps", "acct_a", "acct_b"} {
				w, ok := want[tb]
				if !ok {
					continue
				}
				g := got[tb]
				if len(g) < len(w) {
					missing := ""
					have := map[string]bool{}
					for _, l := range g {
						have[l] = true
					}
					for _, l := range w {
						if !have[l] {
							missing = l
							break
						}
					}
					db.Close()
					fail("C21/backup-incomplete/"+b.Format, "a successful "+b.Format+" backup lacks rows or schema objects",
						"%s: %s has %d entries in the backup, %d in the committed state at version %d; e.g. missing %q", ctxs, tb, len(g), len(w), va, missing)
					return
				}
				if len(g) > len(w) {
					db.Close()
					fail("C21/backup-has-extra-rows", "a successful backup contains rows that were never committed", "%s: %s has %d entries, committed state at version %d has %d", ctxs, tb, len(g), va, len(w))
					return
				}
				for i := range w {
					if g[i] != w[i] {
						db.Close()
						fail("C21/mixed-points-in-time/"+b.Format, "a successful "+b.Format+" backup shows two tables at different versions",
							"%s: version tables say %d, but %s holds %q where the committed state at version %d has %q", ctxs, va, tb, g[i], va, w[i])
						return
					}
				}
			}
			db.Close()
		}
		stopWriter()
		if werr != nil {
			t.Logf("infrastructure: writer stopped: %v", werr)
			rec.Label("writer-error")
		}
		var bl []string
		for _, b := range c.Backups {
			bl = append(bl, b.String())
		}
		canon := fmt.Sprintf("%d/%d/%d/%s/%v", c.Rows, c.Pad, c.SnapEvery, strings.Join(bl, ";"), c.Transfers[:5])
		rec.Case(nontrivial, canon)
		rec.Label(fmt.Sprintf("rows=%d", c.Rows))
		rec.LabelN("transfers-committed", int(acked.Load()))
		rec.Sample(fmt.Sprintf("rows=%d pad=%d snapEvery=%d committed=%d backups: %s", c.Rows, c.Pad, c.SnapEvery, acked.Load(), strings.Join(bl, " | ")))
	})
}
