package store

// C21: every successful backup (binary, DELETE-mode, vacuumed, compressed, or
// SQL dump) is a complete database that is logically equal to the committed
// state at a single point in time, even while writes are in flight.
//
// Unit "local": a real single-node Store. A writer goroutine runs transfer
// transactions (one request each, Transaction=true) that move an amount
// between a row of acct_a and a row of acct_b and bump a version counter kept
// in both ver_a and ver_b. The writer is the only writer and issues transfers
// from a generated, fixed list, so the exact committed state after n transfers
// is known (state(n)). While it runs, backups are taken in generated
// format x flag combinations (binary / DELETE / SQL, vacuum, compress, leader
// flag, destination = memory buffer or *os.File, optional table list for SQL),
// with raft snapshots forced to happen concurrently (low thresholds).
//
// Oracle (independent: raw driver + arithmetic on the transfer list):
//   success => the bytes (gunzipped if compressed; an SQL dump is executed
//   into a fresh raw-driver database) open, PRAGMA integrity_check = ok,
//   ver_a == ver_b == n, n is between the last version acknowledged before the
//   backup started and the number of transfers issued when it returned, and
//   every row of acct_a/acct_b equals state(n). An error return is always
//   acceptable (counted).

import (
	"bytes"
	"compress/gzip"
	"context"
	"database/sql"
	"fmt"
	"io"
	"os"
	"path/filepath"
	"strings"
	"sync/atomic"
	"testing"
	"time"

	"github.com/rqlite/rqlite/v10/command/proto"
	"github.com/rqlite/rqlite/v10/internal/verif/vsql"
	"github.com/rqlite/rqlite/v10/internal/verif/vstat"
	"pgregory.net/rapid"
)

type c21Transfer struct {
	A, B int // row keys
	X    int // amount moved from acct_a[A] to acct_b[B]
}

type c21Backup struct {
	Format   string // binary, delete, sql
	Vacuum   bool
	Compress bool
	Leader   bool
	ToFile   bool
	Tables   bool // sql only: restrict to acct_a and the two version tables
	AfterMs  int  // pause before this backup
}

func (b c21Backup) String() string {
	return fmt.Sprintf("%s vacuum=%v gz=%v leader=%v file=%v tables=%v", b.Format, b.Vacuum, b.Compress, b.Leader, b.ToFile, b.Tables)
}

func (b c21Backup) req() *proto.BackupRequest {
	br := &proto.BackupRequest{Vacuum: b.Vacuum, Compress: b.Compress, Leader: b.Leader}
	switch b.Format {
	case "binary":
		br.Format = proto.BackupRequest_BACKUP_REQUEST_FORMAT_BINARY
	case "delete":
		br.Format = proto.BackupRequest_BACKUP_REQUEST_FORMAT_DELETE
	default:
		br.Format = proto.BackupRequest_BACKUP_REQUEST_FORMAT_SQL
		if b.Tables {
			br.Tables = []string{"acct_a", "ver_a", "ver_b"} // (the indexed table must be included: a restricted dump still carries every index)
		}
	}
	return br
}

type c21Case struct {
	Rows      int
	Pad       int
	Transfers []c21Transfer
	Backups   []c21Backup
	SnapEvery int
}

func c21Gen(rt *rapid.T) c21Case {
	var c c21Case
	c.Rows = rapid.SampledFrom([]int{5, 50, 400, 1500}).Draw(rt, "rows")
	c.Pad = rapid.SampledFrom([]int{0, 40, 300}).Draw(rt, "pad")
	c.SnapEvery = rapid.SampledFrom([]int{0, 20, 60}).Draw(rt, "snapEvery")
	n := vstat.Scale(250, 1500)
	for i := 0; i < n; i++ {
		c.Transfers = append(c.Transfers, c21Transfer{
			A: rapid.IntRange(1, c.Rows).Draw(rt, "a"),
			B: rapid.IntRange(1, c.Rows).Draw(rt, "b"),
			X: rapid.IntRange(1, 9).Draw(rt, "x"),
		})
	}
	nb := rapid.IntRange(3, vstat.Scale(7, 14)).Draw(rt, "nBackups")
	for i := 0; i < nb; i++ {
		b := c21Backup{Format: rapid.SampledFrom([]string{"binary", "binary", "delete", "sql", "sql"}).Draw(rt, "format")}
		b.Compress = rapid.Bool().Draw(rt, "compress")
		b.Leader = rapid.Bool().Draw(rt, "leader")
		b.ToFile = rapid.Bool().Draw(rt, "toFile")
		if b.Format == "binary" {
			b.Vacuum = rapid.Bool().Draw(rt, "vacuum")
		} else if b.Format == "delete" {
			b.Vacuum = rapid.IntRange(0, 4).Draw(rt, "vacuumDelete") == 0 // documented as invalid: must be an error
		} else {
			b.Tables = rapid.IntRange(0, 4).Draw(rt, "tables") == 0
		}
		b.AfterMs = rapid.IntRange(0, 15).Draw(rt, "afterMs")
		c.Backups = append(c.Backups, b)
	}
	return c
}

const c21Initial = 1000

// c21State returns the balances after the first n transfers.
func c21State(c c21Case, n int) (a, b map[int]int) {
	a, b = map[int]int{}, map[int]int{}
	for k := 1; k <= c.Rows; k++ {
		a[k], b[k] = c21Initial, c21Initial
	}
	for i := 0; i < n; i++ {
		t := c.Transfers[i]
		a[t.A] -= t.X
		b[t.B] += t.X
	}
	return
}

func c21ReadVer(db *sql.DB, table string) (int, error) {
	rows, err := db.Query("SELECT ver FROM " + table)
	if err != nil {
		return 0, err
	}
	defer rows.Close()
	n, v := 0, 0
	for rows.Next() {
		if err := rows.Scan(&v); err != nil {
			return 0, err
		}
		n++
	}
	if n != 1 {
		return 0, fmt.Errorf("%s has %d rows", table, n)
	}
	return v, rows.Err()
}

func c21ReadAcct(db *sql.DB, table string) (map[int]int, error) {
	rows, err := db.Query("SELECT k, bal FROM " + table)
	if err != nil {
		return nil, err
	}
	defer rows.Close()
	m := map[int]int{}
	for rows.Next() {
		var k, bal int
		if err := rows.Scan(&k, &bal); err != nil {
			return nil, err
		}
		m[k] = bal
	}
	return m, rows.Err()
}

// c21Open turns backup bytes into an open raw-driver database.
func c21Open(dir string, b c21Backup, data []byte) (*sql.DB, string, error) {
	if b.Compress {
		zr, err := gzip.NewReader(bytes.NewReader(data))
		if err != nil {
			return nil, "not-gzip", err
		}
		raw, err := io.ReadAll(zr)
		if err != nil {
			return nil, "gzip-truncated", err
		}
		data = raw
	}
	p := filepath.Join(dir, fmt.Sprintf("restored-%d.db", time.Now().UnixNano()))
	if b.Format == "sql" {
		db, err := vsql.Open(p)
		if err != nil {
			return nil, "harness", err
		}
		if _, err := db.Exec(string(data)); err != nil {
			db.Close()
			return nil, "dump-does-not-execute", err
		}
		return db, "", nil
	}
	if err := os.WriteFile(p, data, 0o644); err != nil {
		return nil, "harness", err
	}
	if ic, err := vsql.IntegrityCheck(p); err != nil || ic != "ok" {
		return nil, "integrity-check", fmt.Errorf("integrity_check: %q %v", ic, err)
	}
	db, err := vsql.Open(p)
	if err != nil {
		return nil, "does-not-open", err
	}
	return db, "", nil
}

func TestVerif_C21_Local(t *testing.T) {
	rec := vstat.New(t, "C21", "local",
		"real single-node Store; writer goroutine issuing a generated list of transfer transactions (acct_a -> acct_b, version counter in ver_a and ver_b) over tables of {5,50,400,1500} rows x padding {0,40,300} bytes; 3..7 (thorough ..14) backups per case in generated format {binary,delete,sql} x vacuum x compress x leader flag x destination {buffer,file} x table list, with forced raft snapshots every {never,20,60} entries; non-trivial = at least one successful backup was taken while the writer committed something between its start and end; distinct by (rows,pad,snap,backup list,first transfers)")
	rapid.Check(t, func(rt *rapid.T) {
		c := c21Gen(rt)
		dir, err := os.MkdirTemp("", "c21-")
		if err != nil {
			rt.Skip("tempdir")
		}
		defer os.RemoveAll(dir)
		n, err := g8bOpenSingle("", filepath.Join(dir, "node"), func(s *Store) {
			if c.SnapEvery > 0 {
				s.SnapshotThreshold = uint64(c.SnapEvery)
				s.SnapshotInterval = 20 * time.Millisecond
			}
		})
		if err != nil {
			t.Logf("infrastructure: %v", err)
			rt.Skip("store did not come up")
		}
		defer n.Close()
		s := n.S

		pad := strings.Repeat("p", c.Pad)
		setup := []string{
			"CREATE TABLE acct_a(k INTEGER PRIMARY KEY, bal INTEGER, pad TEXT)",
			"CREATE TABLE acct_b(k INTEGER PRIMARY KEY, bal INTEGER, pad TEXT)",
			"CREATE TABLE ver_a(ver INTEGER)",
			"CREATE TABLE ver_b(ver INTEGER)",
			"INSERT INTO ver_a VALUES(0)",
			"INSERT INTO ver_b VALUES(0)",
			"CREATE INDEX acct_a_bal ON acct_a(bal)",
		}
		for k := 1; k <= c.Rows; k += 100 {
			var va []string
			for j := k; j < k+100 && j <= c.Rows; j++ {
				va = append(va, fmt.Sprintf("(%d,%d,'%s')", j, c21Initial, pad))
			}
			setup = append(setup, "INSERT INTO acct_a VALUES"+strings.Join(va, ","), "INSERT INTO acct_b VALUES"+strings.Join(va, ","))
		}
		if _, _, err := g8bExec(s, true, setup...); err != nil {
			t.Logf("infrastructure: setup: %v", err)
			rt.Skip("setup failed")
		}

		// writer
		var acked, issued atomic.Int64
		stop := make(chan struct{})
		wdone := make(chan struct{})
		var werr error
		go func() {
			defer close(wdone)
			for i, tr := range c.Transfers {
				select {
				case <-stop:
					return
				default:
				}
				issued.Store(int64(i + 1))
				_, _, err := g8bExec(s, true,
					fmt.Sprintf("UPDATE acct_a SET bal = bal - %d WHERE k = %d", tr.X, tr.A),
					fmt.Sprintf("UPDATE ver_a SET ver = ver + 1"),
					fmt.Sprintf("UPDATE acct_b SET bal = bal + %d WHERE k = %d", tr.X, tr.B),
					fmt.Sprintf("UPDATE ver_b SET ver = ver + 1"))
				if err != nil {
					werr = err
					return
				}
				acked.Store(int64(i + 1))
			}
		}()
		stopWriter := func() {
			select {
			case <-stop:
			default:
				close(stop)
			}
			<-wdone
		}
		defer stopWriter()

		fail := func(sig, what, format string, args ...any) {
			stopWriter()
			if rec.KnownHit(sig, what) {
				return
			}
			rt.Fatalf("%s", rec.Violation(sig, format, args...))
		}

		nontrivial := false
		for bi, b := range c.Backups {
			if b.AfterMs > 0 {
				time.Sleep(time.Duration(b.AfterMs) * time.Millisecond)
			}
			ackedBefore := int(acked.Load())
			var data []byte
			var berr error
			if b.ToFile {
				f, err := os.CreateTemp(dir, "backup-")
				if err != nil {
					rt.Skip("tempfile")
				}
				berr = s.Backup(context.Background(), b.req(), f)
				f.Close()
				if berr == nil {
					data, err = os.ReadFile(f.Name())
					if err != nil {
						t.Fatalf("harness: %v", err)
					}
				}
				os.Remove(f.Name())
			} else {
				var buf bytes.Buffer
				berr = s.Backup(context.Background(), b.req(), &buf)
				data = buf.Bytes()
			}
			issuedAfter := int(issued.Load())
			rec.Label("format=" + b.Format)
			if berr != nil {
				rec.Label("backup-error")
				rec.Label("backup-error/" + b.Format)
				continue
			}
			rec.Label("backup-ok")
			concurrent := issuedAfter > ackedBefore
			if concurrent {
				nontrivial = true
				rec.Label("backup-ok-with-concurrent-commit")
			}
			ctxs := fmt.Sprintf("backup #%d (%s) rows=%d pad=%d snapEvery=%d, acked before=%d, issued after=%d", bi+1, b, c.Rows, c.Pad, c.SnapEvery, ackedBefore, issuedAfter)

			db, why, err := c21Open(dir, b, data)
			if err != nil {
				if why == "harness" {
					t.Fatalf("harness: %v", err)
				}
				fail("C21/backup-unusable/"+why, "a backup reported as successful cannot be restored ("+why+")", "%s: %v (%d bytes)", ctxs, err, len(data))
				return
			}
			va, err1 := c21ReadVer(db, "ver_a")
			vb, err2 := c21ReadVer(db, "ver_b")
			if err1 != nil || err2 != nil {
				db.Close()
				fail("C21/backup-incomplete", "a successful backup lacks a table or row", "%s: ver_a: %v, ver_b: %v", ctxs, err1, err2)
				return
			}
			if va != vb {
				db.Close()
				fail("C21/mixed-points-in-time/"+b.Format, "a successful "+b.Format+" backup shows two tables at different versions", "%s: ver_a=%d but ver_b=%d", ctxs, va, vb)
				return
			}
			if va < ackedBefore || va > issuedAfter {
				db.Close()
				sig := "C21/backup-misses-acknowledged-writes/" + b.Format
				if va > issuedAfter {
					sig = "C21/backup-from-the-future"
				}
				fail(sig, "a successful backup does not contain writes acknowledged before it started", "%s: backup is at version %d", ctxs, va)
				return
			}
			{
				wantA, wantB := c21State(c, va)
				type tbl struct {
					name string
					want map[int]int
				}
				tbls := []tbl{{"acct_a", wantA}, {"acct_b", wantB}}
				if b.Format == "sql" && b.Tables {
					tbls = tbls[:1]
				}
				for _, tb := range tbls {
					got, err := c21ReadAcct(db, tb.name)
					if err != nil {
						db.Close()
						fail("C21/backup-incomplete", "a successful backup lacks a table or row", "%s: %s: %v", ctxs, tb.name, err)
						return
					}
					if len(got) != len(tb.want) {
						db.Close()
						fail("C21/backup-incomplete", "a successful backup lacks a table or row", "%s: %s has %d rows, want %d", ctxs, tb.name, len(got), len(tb.want))
						return
					}
					for k, w := range tb.want {
						if got[k] != w {
							db.Close()
							fail("C21/mixed-points-in-time/"+b.Format, "a successful "+b.Format+" backup shows two tables at different versions",
								"%s: version tables say %d, but %s[%d]=%d where the state after %d transfers has %d", ctxs, va, tb.name, k, got[k], va, w)
							return
						}
					}
				}
				// the index must have come along too
				var cnt int
				if err := db.QueryRow("SELECT count(*) FROM sqlite_master WHERE type='index' AND name='acct_a_bal'").Scan(&cnt); err != nil || cnt != 1 {
					db.Close()
					fail("C21/backup-incomplete", "a successful backup lacks a table or row", "%s: index acct_a_bal missing (%v)", ctxs, err)
					return
				}
			}
			db.Close()
		}
		stopWriter()
		if werr != nil {
			t.Logf("infrastructure: writer stopped: %v", werr)
			rec.Label("writer-error")
		}
		var bl []string
		for _, b := range c.Backups {
			bl = append(bl, b.String())
		}
		canon := fmt.Sprintf("%d/%d/%d/%s/%v", c.Rows, c.Pad, c.SnapEvery, strings.Join(bl, ";"), c.Transfers[:5])
		rec.Case(nontrivial, canon)
		rec.Label(fmt.Sprintf("rows=%d", c.Rows))
		rec.LabelN("transfers-committed", int(acked.Load()))
		rec.Sample(fmt.Sprintf("rows=%d pad=%d snapEvery=%d committed=%d backups: %s", c.Rows, c.Pad, c.SnapEvery, acked.Load(), strings.Join(bl, " | ")))
	})
}
