package store

// C22: loads and boots replace the database everywhere, durably; invalid
// loads are rejected without changing any node.
//
// A rapid state machine drives a real Store (and, once joined, a second real
// node): deterministic write requests; loads of generated SQLite files (WAL
// and DELETE journal mode, page sizes 512..65536) through Store.Load (the raft
// log); SQL-text loads executed exactly as the /db/load handler does (one
// statement holding the whole text, RollbackOnError); boots through
// Store.ReadFrom (single node only); invalid loads/boots (random bytes; a
// valid 100-byte header followed by garbage; a truncated database; magic
// string only); snapshots; restarts; a second node joining (voter or
// read-only).
//
// Oracle: model database = last loaded content + later writes (raw driver).
// After every load/boot/invalid load, after every restart/join and at the end
// every node's dump must equal the model. "Invalid" is decided by SQLite
// itself (raw driver: the candidate file cannot be opened or
// integrity_check is not ok); such a load must return an error and leave
// every node unchanged.

import (
	"bytes"
	"context"
	"fmt"
	"os"
	"path/filepath"
	"strings"
	"testing"
	"time"

	"github.com/rqlite/rqlite/v10/command/proto"
	"github.com/rqlite/rqlite/v10/internal/verif/vsql"
	"github.com/rqlite/rqlite/v10/internal/verif/vstat"
	"pgregory.net/rapid"
)

type c22Node struct {
	id  string
	dir string
	s   *Store
}

type c22Machine struct {
	rt    *rapid.T
	rec   *vstat.Rec
	base  string
	nodes []*c22Node
	model *g8aModel
	hist  []string
	done  bool

	joined                      bool
	nLoads, nBoots, nSQLLoads   int
	nInvalid                    int
	snapAfterLoad, durAfterLoad bool // snapshot / restart-or-join after a load or boot
	loadedOnce                  bool
	invalidKinds                map[string]bool
	restoresFailed0             string
	loadDuringPersist           bool
	nCopy                       int
	images                      []string
	nImg                        int
	nReloads                    int
	nBootsAttached              int
}

const c22Heartbeat = 300 * time.Millisecond

func (m *c22Machine) fail(sig, format string, args ...any) {
	msg := fmt.Sprintf(format, args...)
	m.rt.Fatalf("%s", m.rec.Violation(sig, "%s | history: %s", msg, strings.Join(m.hist, " ; ")))
}

// leader returns the current leader (waiting for one if necessary).
func (m *c22Machine) leader() *Store {
	deadline := time.Now().Add(30 * time.Second)
	for time.Now().Before(deadline) {
		for _, n := range m.nodes {
			if n.s.IsLeader() {
				if err := g8aBarrier(n.s, 10*time.Second); err == nil {
					return n.s
				}
			}
		}
		time.Sleep(20 * time.Millisecond)
	}
	m.rec.Label("inconclusive:no-leader")
	m.done = true
	return nil
}

// settle waits until every node has applied what the leader has applied.
func (m *c22Machine) settle() bool {
	l := m.leader()
	if l == nil {
		return false
	}
	deadline := time.Now().Add(40 * time.Second)
	for _, n := range m.nodes {
		if !g8aWaitApplied(l, n.s, deadline) {
			// not catching up in time is inconclusive by itself, but a snapshot
			// restore that FAILED on a node is an event that must never happen
			if failed := stats.Get(numRestoresFailed).String(); failed != m.restoresFailed0 {
				m.fail("C22/node-cannot-restore-snapshot", "node %s does not catch up and snapshot restores failed (num_restores_failed %s -> %s)", n.id, m.restoresFailed0, failed)
			}
			m.rec.Label("inconclusive:follower-did-not-catch-up")
			m.done = true
			return false
		}
	}
	return true
}

// checkAll compares every node with the model.
func (m *c22Machine) checkAll(when string, sigIfDiff string, known string) bool {
	if m.done || !m.settle() {
		return false
	}
	want, err := m.model.Dump()
	if err != nil {
		m.done = true
		return false
	}
	for _, n := range m.nodes {
		got, err := g8aDumpLive(n.s)
		if err != nil || got != want {
			what := fmt.Sprintf("node %s differs from the model %s: %v %s; model {%s} node {%s}", n.id, when, err, g8aFirstDiff(got, want), g8aSummary(want), g8aSummary(got))
			if known != "" && m.rec.KnownHit(sigIfDiff, known) {
				m.done = true
				return false
			}
			m.fail(sigIfDiff, "%s", what)
		}
	}
	return true
}

func (m *c22Machine) unexpected(op string, err error) {
	// leadership changes under load make the outcome of an operation
	// unknown; that is not what this check is about
	m.rec.Label("inconclusive:" + op + "-error")
	m.hist = append(m.hist, fmt.Sprintf("%s(err=%v)", op, err))
	m.done = true
}

func (m *c22Machine) write(big bool) {
	l := m.leader()
	if l == nil {
		return
	}
	var b []string
	if big {
		b = g8aBigBatch(m.rt)
	} else {
		b = g8aSmallBatch(m.rt)
	}
	if err := g8aExec(l, b); err != nil {
		if len(m.nodes) > 1 {
			m.unexpected("write", err)
			return
		}
		m.fail("C22/execute-error", "execute failed: %v", err)
	}
	m.model.Exec(b)
	m.hist = append(m.hist, "W"+g8aShort(b))
}

// c22IsValidDB asks SQLite itself (raw driver) whether the bytes are a valid
// database.
func c22IsValidDB(dir string, data []byte) bool {
	p := filepath.Join(dir, "candidate.db")
	os.Remove(p)
	os.Remove(p + "-wal")
	os.Remove(p + "-shm")
	if err := os.WriteFile(p, data, 0o644); err != nil {
		return false
	}
	defer os.Remove(p)
	defer os.Remove(p + "-wal")
	defer os.Remove(p + "-shm")
	if len(data) < 100 || !bytes.HasPrefix(data, []byte("SQLite format 3\x00")) {
		return false
	}
	ic, err := vsql.IntegrityCheck(p)
	if err != nil || ic != "ok" {
		return false
	}
	if _, err := vsql.DumpFile(p); err != nil {
		return false
	}
	return true
}

func (m *c22Machine) genInvalid() (kind string, data []byte) {
	kind = rapid.SampledFrom([]string{"random-bytes", "header+garbage", "header+garbage", "truncated", "truncated", "magic-only"}).Draw(m.rt, "invalidKind")
	// a real database to take header / prefix from
	spec := g8aGenLoadSpec(m.rt)
	spec.Batches = append(spec.Batches, g8aBigBatch(m.rt))
	p := filepath.Join(m.base, "src.db")
	if err := g8aBuildDBFile(spec, p); err != nil {
		m.rt.Skip("build")
	}
	src, err := os.ReadFile(p)
	if err != nil || len(src) < 1024 {
		m.rt.Skip("read")
	}
	switch kind {
	case "random-bytes":
		data = rapid.SliceOfN(rapid.Byte(), 0, 600).Draw(m.rt, "bytes")
		if bytes.HasPrefix(data, []byte("SQLite format 3")) {
			data[0] = 'X'
		}
	case "header+garbage":
		g := rapid.SliceOfN(rapid.Byte(), 0, 3000).Draw(m.rt, "garbage")
		data = append(append([]byte{}, src[:100]...), g...)
	case "truncated":
		cut := rapid.IntRange(100, len(src)-1).Draw(m.rt, "cut")
		if rapid.Bool().Draw(m.rt, "pageAligned") {
			ps := spec.PageSize
			if cut/ps >= 1 {
				cut = cut / ps * ps
			}
		}
		data = append([]byte{}, src[:cut]...)
	case "magic-only":
		data = append([]byte("SQLite format 3\x00"), make([]byte, rapid.IntRange(0, 200).Draw(m.rt, "zeros"))...)
	}
	return kind, data
}

func (m *c22Machine) loadValid() {
	spec := g8aGenLoadSpec(m.rt)
	m.nImg++
	p := filepath.Join(m.base, fmt.Sprintf("img-%d.db", m.nImg))
	if err := g8aBuildDBFile(spec, p); err != nil {
		m.rt.Skip("build load file")
	}
	if m.loadImage(p, "LOAD"+spec.String()) {
		m.images = append(m.images, p)
		if len(m.images) > 4 {
			os.Remove(m.images[0])
			m.images = m.images[1:]
		}
	}
}

// loadImage sends the bytes of the file at p through Store.Load.
func (m *c22Machine) loadImage(p, desc string) bool {
	l := m.leader()
	if l == nil {
		return false
	}
	if err := g8aLoadFile(l, p); err != nil {
		if len(m.nodes) > 1 {
			m.unexpected("load", err)
			return false
		}
		m.fail("C22/valid-load-rejected", "load of a valid database failed: %v (%s)", err, desc)
	}
	if err := m.model.ReplaceWithFile(p); err != nil {
		m.rt.Skip("model")
	}
	m.nLoads++
	m.loadedOnce, m.snapAfterLoad, m.durAfterLoad = true, false, false
	m.hist = append(m.hist, desc)
	return m.checkAll("after a load", "C22/node-differs-after-load", "")
}

// reload loads an image that was loaded before, byte for byte, after later
// writes (which live in the WAL, so the main file may still equal the image),
// with or without a snapshot in between: the database must be the image
// again, on every node.
func (m *c22Machine) reload() {
	if len(m.images) == 0 || rapid.IntRange(0, 2).Draw(m.rt, "freshImage") == 0 {
		m.loadValid()
		if m.done {
			return
		}
	}
	if len(m.images) == 0 {
		return
	}
	img := m.images[rapid.IntRange(0, len(m.images)-1).Draw(m.rt, "image")]
	if rapid.IntRange(0, 3).Draw(m.rt, "newest") != 0 {
		img = m.images[len(m.images)-1]
	}
	for i := rapid.IntRange(1, 2).Draw(m.rt, "writesBeforeReload"); i > 0 && !m.done; i-- {
		m.write(false)
	}
	if !m.done && rapid.IntRange(0, 2).Draw(m.rt, "snapshotBeforeReload") == 0 {
		m.snapshot()
	}
	if m.done {
		return
	}
	if m.loadImage(img, "RELOAD("+filepath.Base(img)+")") {
		m.nReloads++
	}
}

func (m *c22Machine) loadSQL() {
	l := m.leader()
	if l == nil {
		return
	}
	// text as produced by a dump: one transaction with many statements
	var sb strings.Builder
	sb.WriteString("BEGIN TRANSACTION;\n")
	n := rapid.IntRange(1, 3).Draw(m.rt, "sqlBatches")
	for i := 0; i < n; i++ {
		for _, st := range g8aSmallBatch(m.rt) {
			sb.WriteString(st + ";\n")
		}
	}
	sb.WriteString("COMMIT;\n")
	text := sb.String()
	er := executeRequestFromStrings([]string{text}, false, false)
	er.Request.RollbackOnError = true
	res, _, err := l.Execute(context.Background(), er)
	if err != nil {
		if len(m.nodes) > 1 {
			m.unexpected("sqlload", err)
			return
		}
		m.fail("C22/sql-load-error", "SQL-text load failed: %v", err)
	}
	liveErr := ""
	for _, r := range res {
		if r.GetError() != "" {
			liveErr = r.GetError()
		}
	}
	// the text is one transaction: SQLite runs it up to the first failing
	// statement; rqlite then rolls back (RollbackOnError), so does the model
	_, modelErr := m.model.db.Exec(text)
	if modelErr != nil {
		m.model.db.Exec("ROLLBACK")
	}
	if (modelErr != nil) != (liveErr != "") {
		m.fail("C22/sql-load-result-mismatch", "SQL-text load: node reported %q, SQLite (model) reported %v", liveErr, modelErr)
	}
	m.nSQLLoads++
	m.hist = append(m.hist, fmt.Sprintf("SQLLOAD(%d bytes)", len(text)))
	m.checkAll("after a SQL-text load", "C22/node-differs-after-sql-load", "")
}

func (m *c22Machine) boot() {
	l := m.leader()
	if l == nil {
		return
	}
	spec := g8aGenLoadSpec(m.rt)
	p := filepath.Join(m.base, "boot.db")
	if err := g8aBuildDBFile(spec, p); err != nil {
		m.rt.Skip("build boot file")
	}
	f, err := os.Open(p)
	if err != nil {
		m.rt.Skip("open")
	}
	_, err = l.ReadFrom(f)
	f.Close()
	if len(m.nodes) > 1 {
		// Boot bypasses the log, so it is a single-node operation: with any other
		// node attached (voter or read-only) it has to be refused - or, if it
		// reports success, every node must hold the booted database. Either way
		// the comparison of every node with the model decides.
		m.nBootsAttached++
		if err != nil {
			m.hist = append(m.hist, fmt.Sprintf("BOOT-WITH-%d-NODES(refused)", len(m.nodes)))
			m.checkAll("after a refused boot", "C22/refused-boot-changes-database", "")
			return
		}
		if err := m.model.ReplaceWithFile(p); err != nil {
			m.rt.Skip("model")
		}
		m.hist = append(m.hist, fmt.Sprintf("BOOT-WITH-%d-NODES(ok)%s", len(m.nodes), spec))
		m.loadedOnce, m.snapAfterLoad, m.durAfterLoad = true, true, false
		// a later write must reach a database that is the booted one everywhere
		m.write(false)
		m.checkAll("after a boot that succeeded with another node attached", "C22/boot-with-attached-node-not-replicated", "")
		return
	}
	if err != nil {
		m.fail("C22/valid-boot-rejected", "boot with a valid database failed: %v (%s)", err, spec)
	}
	if err := m.model.ReplaceWithFile(p); err != nil {
		m.rt.Skip("model")
	}
	m.nBoots++
	m.loadedOnce, m.snapAfterLoad, m.durAfterLoad = true, true, false // boot snapshots itself
	m.hist = append(m.hist, "BOOT"+spec.String())
	m.checkAll("after a boot", "C22/node-differs-after-boot", "")
}

const c22KnownDestroy = "a load/boot whose data only has a valid SQLite header (garbage or truncated behind it) is not rejected up front: the live database is closed and deleted (or replaced by the broken file) on every node"

func (m *c22Machine) invalid(viaBoot bool) {
	if viaBoot && len(m.nodes) != 1 {
		viaBoot = false
	}
	l := m.leader()
	if l == nil {
		return
	}
	kind, data := m.genInvalid()
	if c22IsValidDB(m.base, data) {
		// SQLite accepts it (e.g. only unused trailing bytes were cut): not an invalid load
		m.rec.Label("invalid-candidate-was-valid")
		return
	}
	if m.invalidKinds == nil {
		m.invalidKinds = map[string]bool{}
	}
	m.invalidKinds[kind] = true
	var err error
	op := "INVALID-LOAD"
	if viaBoot {
		op = "INVALID-BOOT"
		_, err = l.ReadFrom(bytes.NewReader(data))
	} else {
		err = l.Load(context.Background(), &proto.LoadRequest{Data: data})
	}
	m.nInvalid++
	m.hist = append(m.hist, fmt.Sprintf("%s(%s,%d bytes,err=%v)", op, kind, len(data), err))
	sigKind := "header-only-valid"
	if kind == "random-bytes" {
		sigKind = "no-header"
	}
	if err == nil {
		sig := "C22/invalid-" + strings.ToLower(strings.TrimPrefix(op, "INVALID-")) + "-accepted/" + sigKind
		if m.rec.KnownHit(sig, c22KnownDestroy) {
			m.done = true
			return
		}
		m.fail(sig, "%s of data that SQLite does not accept as a database (%s, %d bytes) returned no error", op, kind, len(data))
	}
	m.checkAll("after a rejected "+strings.ToLower(op)+" ("+kind+")", "C22/invalid-load-changes-database/"+sigKind, c22KnownDestroy)
}

func (m *c22Machine) snapshot() {
	n := m.nodes[rapid.IntRange(0, len(m.nodes)-1).Draw(m.rt, "snapNode")]
	if !m.settle() {
		return
	}
	err := n.s.Snapshot(uint64(rapid.SampledFrom([]int{0, 0, 1}).Draw(m.rt, "trailing")))
	if err == nil {
		if m.loadedOnce {
			m.snapAfterLoad = true
		}
		m.hist = append(m.hist, "SNAP("+n.id+")")
		// nothing has been applied since: the node's snapshot store alone must
		// restore to exactly what the node holds now
		m.nCopy++
		dst := filepath.Join(m.base, fmt.Sprintf("rcopy%d", m.nCopy))
		live, lerr := g8aDumpLive(n.s)
		d, ic, openErr, infraErr := g8aRestoreOnly(n.dir, dst, n.id)
		os.RemoveAll(dst)
		if infraErr == nil && lerr == nil {
			m.hist = append(m.hist, "RESTORE-COPY("+n.id+")")
			if openErr != nil {
				m.fail("C22/snapshot-store-not-restorable", "a copy of %s's data directory cannot be restored from its snapshot store: %v", n.id, openErr)
			}
			if d != live || ic != "ok" {
				m.fail("C22/snapshot-restore-differs", "%s's snapshot store restores to something else than the node holds (integrity %q): %s; node {%s} restored {%s}", n.id, ic, g8aFirstDiff(d, live), g8aSummary(live), g8aSummary(d))
			}
		}
	} else {
		m.hist = append(m.hist, "SNAP("+n.id+",err)")
	}
}

// snapshotWithApplyDuringPersist takes a snapshot of the leader in raft's own
// order (FSM.Snapshot, then - on raft's snapshot goroutine - Create sink,
// Persist, Close, Release) and lets the FSM apply a load or a write between
// FSM.Snapshot and Persist, which is what happens when a request arrives while
// a (large) snapshot is still being persisted. Index, term and configuration
// are taken as raft takes them: at the time of FSM.Snapshot.
func (m *c22Machine) snapshotWithApplyDuringPersist() {
	l := m.leader()
	if l == nil || !m.settle() {
		return
	}
	if rapid.Bool().Draw(m.rt, "loadFirst") {
		// a load makes the snapshot that is about to be persisted a full one
		m.loadValid()
		if m.done {
			return
		}
		l = m.leader()
		if l == nil || !m.settle() {
			return
		}
	}
	idx, term := l.fsmIdx.Load(), l.fsmTerm.Load()
	cf := l.raft.GetConfiguration()
	cfIdx := g8aConfigIndex(l)
	if cf.Error() != nil || cfIdx == 0 || idx == 0 || idx < cfIdx {
		return // raft itself would refuse to persist now
	}
	f, err := NewFSM(l).Snapshot()
	if err != nil {
		m.hist = append(m.hist, "HSNAP(fsm err)")
		return
	}
	what := rapid.SampledFrom([]string{"load", "load", "write", "nothing"}).Draw(m.rt, "duringPersist")
	m.hist = append(m.hist, "HSNAP-BEGIN")
	switch what {
	case "load":
		m.loadValid()
	case "write":
		m.write(false)
	}
	if m.done {
		f.Release()
		return
	}
	sink, err := l.snapshotStore.Create(1, idx, term, cf.Configuration(), cfIdx, l.raftTn)
	if err != nil {
		f.Release()
		m.hist = append(m.hist, "HSNAP(create err)")
		return
	}
	if err := f.Persist(sink); err != nil {
		sink.Cancel()
		m.hist = append(m.hist, "HSNAP-END(persist err)")
	} else {
		sink.Close()
		m.hist = append(m.hist, "HSNAP-END(ok,during="+what+")")
		if what == "load" {
			m.loadDuringPersist = true
		}
		if m.loadedOnce {
			m.snapAfterLoad = true
		}
	}
	f.Release()
	if !m.done && rapid.IntRange(0, 3).Draw(m.rt, "followUp") != 0 {
		m.write(rapid.Bool().Draw(m.rt, "big"))
		if !m.done {
			m.snapshot()
		}
	}
}

func (m *c22Machine) restart(idx int, noSnapOnClose bool) {
	n := m.nodes[idx]
	if !m.settle() {
		return
	}
	n.s.NoSnapshotOnClose = noSnapOnClose
	addr := n.s.Addr()
	if err := g8aClose(n.s); err != nil {
		m.fail("C22/close-error", "close failed: %v", err)
	}
	n.s.ly.Close()
	s2, err := g8aNewStore(n.dir, n.id, g8aOpts{Addr: addr, Heartbeat: c22Heartbeat, ReapThreshold: 1000})
	if err != nil {
		m.rec.Label("infra:relisten")
		m.done = true
		return
	}
	n.s = s2
	m.hist = append(m.hist, fmt.Sprintf("RESTART(%s,noSnapOnClose=%v)", n.id, noSnapOnClose))
	if err := s2.Open(); err != nil {
		m.fail("C22/restart-open-failed", "restart of %s failed: %v", n.id, err)
	}
	if m.loadedOnce {
		m.durAfterLoad = true
	}
	m.checkAll("after restart of "+n.id, "C22/node-differs-after-restart", "")
}

func (m *c22Machine) join(voter bool) {
	if m.joined {
		return
	}
	l := m.leader()
	if l == nil {
		return
	}
	n := &c22Node{id: "n2", dir: filepath.Join(m.base, "node2")}
	s2, err := g8aNewStore(n.dir, n.id, g8aOpts{Heartbeat: c22Heartbeat, ReapThreshold: 1000})
	if err != nil {
		m.done = true
		return
	}
	n.s = s2
	if err := s2.Open(); err != nil {
		m.fail("C22/open-error", "open of a fresh node failed: %v", err)
	}
	m.nodes = append(m.nodes, n)
	m.joined = true
	if err := l.Join(joinRequest(n.id, s2.Addr(), voter)); err != nil {
		m.unexpected("join", err)
		return
	}
	m.hist = append(m.hist, fmt.Sprintf("JOIN(n2,voter=%v)", voter))
	if m.loadedOnce {
		m.durAfterLoad = true
	}
	m.checkAll("after n2 joined", "C22/joined-node-differs", "")
}

func TestVerif_C22_Loads(t *testing.T) {
	rec := vstat.New(t, "C22", "loads",
		"rapid state machine on a real Store (+ a second real node once joined): writes, loads of generated SQLite files (WAL/DELETE, page sizes 512..65536), SQL-text loads (as the /db/load handler executes them), re-loads of an earlier image byte for byte after later writes (with/without a snapshot in between), boots (also attempted with a voter or read-only node attached), invalid loads/boots (random bytes, valid header + garbage, truncated database, magic only; invalidity decided by SQLite's own integrity_check), snapshots, restarts, join of a voter/read-only node; non-trivial = a load or boot was followed by >=1 snapshot and >=1 restart or join; distinct = hash of the whole history")
	rapid.Check(t, func(rt *rapid.T) { c22Case(rt, rec) })
}

func c22Case(rt *rapid.T, rec *vstat.Rec) {
	g8aNextCase()
	base, err := os.MkdirTemp("", "c22")
	if err != nil {
		rt.Skip("tempdir")
	}
	defer os.RemoveAll(base)
	m := &c22Machine{rt: rt, rec: rec, base: base, restoresFailed0: stats.Get(numRestoresFailed).String()}
	n1 := &c22Node{id: "n1", dir: filepath.Join(base, "node1")}
	s, err := g8aNewStore(n1.dir, n1.id, g8aOpts{Heartbeat: c22Heartbeat, ReapThreshold: 1000})
	if err != nil {
		rt.Skip("listen")
	}
	n1.s = s
	m.nodes = []*c22Node{n1}
	defer func() {
		for _, n := range m.nodes {
			g8aCloseQuiet(n.s)
		}
	}()
	if err := g8aOpenSingle(s, true); err != nil {
		rec.Label("infra:open-failed")
		return
	}
	m.model, err = g8aNewModel(base)
	if err != nil {
		return
	}
	defer m.model.Close()

	guard := func(f func()) func(*rapid.T) {
		return func(rt *rapid.T) {
			if m.done {
				return
			}
			m.rt = rt
			f()
		}
	}
	loadStep := guard(m.loadValid)
	writeStep := guard(func() { m.write(rapid.IntRange(0, 3).Draw(m.rt, "big") == 0) })
	snapStep := guard(m.snapshot)
	invalidStep := guard(func() { m.invalid(rapid.IntRange(0, 3).Draw(m.rt, "viaBoot") == 0) })
	rt.Repeat(map[string]func(*rapid.T){
		"write":                              writeStep,
		"write-2":                            writeStep,
		"write-3":                            writeStep,
		"load":                               loadStep,
		"load-2":                             loadStep,
		"sql-load":                           guard(m.loadSQL),
		"reload":                             guard(m.reload),
		"reload-2":                           guard(m.reload),
		"boot":                               guard(m.boot),
		"invalid":                            invalidStep,
		"snapshot":                           snapStep,
		"snapshot2":                          snapStep,
		"snapshot-with-apply-during-persist": guard(m.snapshotWithApplyDuringPersist),
		"restart": guard(func() {
			m.restart(rapid.IntRange(0, len(m.nodes)-1).Draw(m.rt, "restartNode"), rapid.Bool().Draw(m.rt, "noSnapshotOnClose"))
		}),
		"join": guard(func() { m.join(rapid.Bool().Draw(m.rt, "voter")) }),
	})

	m.rt = rt
	// ---- end: every node equals the model; a node joining now gets the
	// loaded database; everything survives a restart of all nodes.
	m.checkAll("at the end", "C22/node-differs-at-end", "")
	if !m.done && !m.joined {
		m.join(rapid.Bool().Draw(rt, "voterAtEnd"))
	}
	if !m.done && m.settle() {
		for _, n := range m.nodes {
			n.s.NoSnapshotOnClose = rapid.Bool().Draw(rt, "finalNoSnapOnClose")
		}
		// followers first, then the leader, so that nobody waits for a quorum
		order := []int{}
		for i, n := range m.nodes {
			if !n.s.IsLeader() {
				order = append(order, i)
			}
		}
		for i, n := range m.nodes {
			if n.s.IsLeader() {
				order = append(order, i)
			}
		}
		addrs := map[int]string{}
		ok := true
		for _, i := range order {
			n := m.nodes[i]
			addrs[i] = n.s.Addr()
			if err := g8aClose(n.s); err != nil {
				m.fail("C22/close-error", "close failed: %v", err)
			}
			n.s.ly.Close()
		}
		for i, n := range m.nodes {
			s2, err := g8aNewStore(n.dir, n.id, g8aOpts{Addr: addrs[i], Heartbeat: c22Heartbeat, ReapThreshold: 1000})
			if err != nil {
				ok = false
				m.rec.Label("infra:relisten")
				break
			}
			n.s = s2
			if err := s2.Open(); err != nil {
				m.fail("C22/restart-open-failed", "final restart of %s failed: %v", n.id, err)
			}
		}
		if ok {
			m.hist = append(m.hist, "RESTART-ALL")
			if m.loadedOnce {
				m.durAfterLoad = true
			}
			m.checkAll("after the final restart of all nodes", "C22/node-differs-after-restart", "")
		} else {
			m.done = true
		}
	}

	nontrivial := m.loadedOnce && m.snapAfterLoad && m.durAfterLoad
	rec.Case(nontrivial, strings.Join(m.hist, ";"))
	if m.nLoads > 0 {
		rec.Label("has-file-load")
	}
	if m.nSQLLoads > 0 {
		rec.Label("has-sql-load")
	}
	if m.nBoots > 0 {
		rec.Label("has-boot")
	}
	if m.nReloads > 0 {
		rec.Label("has-reload-of-same-image")
	}
	if m.nBootsAttached > 0 {
		rec.Label("has-boot-attempt-with-attached-node")
	}
	if m.nInvalid > 0 {
		rec.Label("has-invalid-load")
	}
	for k := range map[string]bool{"random-bytes": true, "header+garbage": true, "truncated": true, "magic-only": true} {
		if m.invalidKinds[k] {
			rec.Label("invalid:" + k)
		}
	}
	if m.joined {
		rec.Label("two-nodes")
	}
	if m.snapAfterLoad {
		rec.Label("snapshot-after-load")
	}
	if m.loadDuringPersist {
		rec.Label("load-applied-during-snapshot-persist")
	}
	rec.Sample(strings.Join(m.hist, " ; "))
}
