package store

// C03 cross-check with a real process kill.
//
// The history runs in a CHILD process (this test binary re-executed with
// -test.run ^TestVerif_C03_KillChild$) that SIGKILLs itself either when a
// chosen filesystem event fires (same numbering as the vos trace of a dry run
// of the same history) or when a timer expires (lands between or inside
// acknowledged writes, inside SQLite / bbolt I/O, inside snapshots). The
// child appends "B <i>" before and "A <i>" after every operation to an ack log
// outside the data directory. The parent restarts a Store on the directory the
// dead process left behind and compares the database with the model of the
// acknowledged operations, or of those plus the one operation in flight.
//
// This is the process-crash model of the property exactly (completed writes
// kept, in-flight operations cut); it cross-checks the copy-state enumeration
// of TestVerif_C03_Crash and adds crash points inside Execute.

import (
	"bufio"
	"encoding/json"
	"errors"
	"fmt"
	"os"
	"path/filepath"
	"strconv"
	"strings"
	"testing"
	"time"

	"github.com/rqlite/rqlite/v10/internal/verif/vcrash"
	"github.com/rqlite/rqlite/v10/internal/verif/vos"
	"github.com/rqlite/rqlite/v10/internal/verif/vsql"
	"github.com/rqlite/rqlite/v10/internal/verif/vstat"
	"github.com/rqlite/rqlite/v10/snapshot"
	"pgregory.net/rapid"
)

type c03KillTask struct {
	Dir       string  `json:"dir"`
	Ops       []c03Op `json:"ops"`
	AckLog    string  `json:"ack_log"`
	EventLog  string  `json:"event_log"`
	KillEvent int     `json:"kill_event"`    // >0: kill when this vos event fires (counted from history start)
	KillAfter int     `json:"kill_after_us"` // >0: kill this many microseconds after history start
}

// TestVerif_C03_KillChild is the child side; it does nothing unless started by
// the parent.
func TestVerif_C03_KillChild(t *testing.T) {
	taskPath, ok := vcrash.IsChild()
	if !ok {
		t.Skip("helper for TestVerif_C03_Kill")
	}
	b, err := os.ReadFile(taskPath)
	if err != nil {
		t.Fatalf("task: %v", err)
	}
	var task c03KillTask
	if err := json.Unmarshal(b, &task); err != nil {
		t.Fatalf("task: %v", err)
	}
	ack, err := os.OpenFile(task.AckLog, os.O_CREATE|os.O_WRONLY|os.O_APPEND, 0o644)
	if err != nil {
		t.Fatalf("ack log: %v", err)
	}
	node, err := c03Start(task.Dir, true)
	if err != nil {
		t.Fatalf("child start: %v", err)
	}
	// history start: arm the kill
	fmt.Fprintf(ack, "START %d\n", time.Now().UnixMicro())
	vos.SetHook(vcrash.KillAt(task.KillEvent, task.EventLog, task.Dir))
	if task.KillAfter > 0 {
		go func() {
			time.Sleep(time.Duration(task.KillAfter) * time.Microsecond)
			vos.KillSelf()
		}()
	}
	all := append([]c03Op{{Kind: "W", Stmts: c03Schema}}, task.Ops...)
	for i, op := range all {
		fmt.Fprintf(ack, "B %d\n", i)
		switch op.Kind {
		case "W":
			err = node.exec(op.Stmts)
		case "S":
			err = node.snapshot(op.Trailing)
		case "F":
			err = node.s.snapshotStore.SetDueNext(snapshot.Full)
		case "R":
			_, _, err = node.s.Reap()
		case "C":
			node.s.NoSnapshotOnClose = !op.SnapOnClose
			if err = node.stop(); err == nil {
				node, err = c03Start(task.Dir, false)
			}
		}
		if err != nil {
			fmt.Fprintf(ack, "E %d %s\n", i, strings.ReplaceAll(err.Error(), "\n", " "))
			t.Fatalf("child op %d (%s) failed: %v", i, op.String(), err)
		}
		fmt.Fprintf(ack, "A %d\n", i)
	}
	fmt.Fprintf(ack, "DONE %d\n", time.Now().UnixMicro())
	vos.SetHook(nil)
	node.stop()
}

// c03ReadAck returns the operations acknowledged and the one in flight (-1: none).
func c03ReadAck(path string) (started bool, acked []int, inflight int, done bool, durUs int) {
	inflight = -1
	var t0 int
	f, err := os.Open(path)
	if err != nil {
		return
	}
	defer f.Close()
	sc := bufio.NewScanner(f)
	for sc.Scan() {
		fs := strings.SplitN(sc.Text(), " ", 3)
		switch fs[0] {
		case "START":
			started = true
			if len(fs) > 1 {
				t0, _ = strconv.Atoi(fs[1])
			}
		case "DONE":
			done = true
			if len(fs) > 1 {
				t1, _ := strconv.Atoi(fs[1])
				durUs = t1 - t0
			}
		case "B":
			inflight, _ = strconv.Atoi(fs[1])
		case "A":
			i, _ := strconv.Atoi(fs[1])
			acked = append(acked, i)
			inflight = -1
		}
	}
	return
}

func c03CountLines(path string) int {
	b, err := os.ReadFile(path)
	if err != nil {
		return 0
	}
	return strings.Count(string(b), "\n")
}

func TestVerif_C03_Kill(t *testing.T) {
	rec := vstat.New(t, "C03", "kill",
		"one case = (history, kill point); the history (write batches, snapshots, FULL_NEEDED marks, reaps, clean close/reopen) runs in a child process that SIGKILLs itself at a generated filesystem event or after a generated delay; the parent restarts a Store on the directory left behind; non-trivial = the child was killed after at least one acknowledged write; distinct by history + kill point")
	rapid.Check(t, func(rt *rapid.T) {
		var h c03History
		seq := 0
		n := rapid.IntRange(3, 10).Draw(rt, "nops")
		h.Ops = append(h.Ops, c03GenWrite(rt, &seq))
		for i := 1; i < n; i++ {
			switch rapid.SampledFrom([]string{"W", "W", "W", "S", "S", "F", "R", "C"}).Draw(rt, "op") {
			case "W":
				h.Ops = append(h.Ops, c03GenWrite(rt, &seq))
			case "S":
				if h.Ops[len(h.Ops)-1].Kind != "W" {
					h.Ops = append(h.Ops, c03GenWrite(rt, &seq))
				}
				h.Ops = append(h.Ops, c03Op{Kind: "S", Trailing: rapid.SampledFrom([]uint64{0, 0, 1}).Draw(rt, "trailing")})
			case "F":
				h.Ops = append(h.Ops, c03Op{Kind: "F"})
			case "R":
				h.Ops = append(h.Ops, c03Op{Kind: "R"})
			case "C":
				h.Ops = append(h.Ops, c03Op{Kind: "C", SnapOnClose: rapid.Bool().Draw(rt, "snapOnClose")})
			}
		}
		h.Final = c03Op{Kind: "-"}
		nKills := vstat.Scale(4, 10)
		type kill struct {
			eventFrac float64
			timeFrac  float64
		}
		kills := make([]kill, nKills)
		for i := range kills {
			if rapid.Bool().Draw(rt, "byEvent") {
				kills[i].eventFrac = rapid.Float64Range(0.01, 1).Draw(rt, "eventFrac")
			} else {
				kills[i].timeFrac = rapid.Float64Range(0.01, 1).Draw(rt, "timeFrac")
			}
		}
		root, err := os.MkdirTemp("", "c03k-")
		if err != nil {
			rt.Skip("no temp dir")
		}
		defer os.RemoveAll(root)

		run := func(tag string, killEvent, killAfterUs int) (task c03KillTask, killed bool, ok bool) {
			task = c03KillTask{Dir: filepath.Join(root, tag, "data"), Ops: h.Ops, AckLog: filepath.Join(root, tag, "ack.log"),
				EventLog: filepath.Join(root, tag, "events.log"), KillEvent: killEvent, KillAfter: killAfterUs}
			os.MkdirAll(filepath.Join(root, tag), 0o755)
			b, _ := json.Marshal(task)
			tp := filepath.Join(root, tag, "task.json")
			if err := os.WriteFile(tp, b, 0o644); err != nil {
				return task, false, false
			}
			killed, exit, out, err := vcrash.RunChild("TestVerif_C03_KillChild", tp)
			if err != nil || (!killed && exit != 0) {
				rec.Label("inconclusive:child-failed")
				tail := string(out)
				if len(tail) > 1500 {
					tail = tail[len(tail)-1500:]
				}
				rt.Logf("child %s failed (exit %d, err %v):\n%s", tag, exit, err, tail)
				return task, false, false
			}
			return task, killed, true
		}

		// dry run: number of events and duration of the history
		dry, _, ok := run("dry", 0, 0)
		if !ok {
			rt.Skip("dry run failed")
		}
		nEvents := c03CountLines(dry.EventLog)
		_, _, _, done, durUs := c03ReadAck(dry.AckLog)
		if !done || durUs <= 0 {
			rt.Skip("dry run did not finish")
		}
		rec.Label(fmt.Sprintf("history-events:%d", min(nEvents/20*20, 100)))

		// model dumps for every prefix of operations
		all := append([]c03Op{{Kind: "W", Stmts: c03Schema}}, h.Ops...)
		modelOf := func(upto map[int]bool) string {
			m, err := vsql.OpenMem()
			if err != nil {
				rt.Skip("model: " + err.Error())
			}
			defer m.Close()
			for i, op := range all {
				if op.Kind != "W" || !upto[i] {
					continue
				}
				for _, q := range op.Stmts {
					if _, err := m.Exec(q); err != nil {
						rt.Skip("model exec: " + err.Error())
					}
				}
			}
			d, err := vsql.DumpDB(m)
			if err != nil {
				rt.Skip("model dump: " + err.Error())
			}
			return d
		}

		for ki, k := range kills {
			tag := fmt.Sprintf("kill%d", ki)
			var task c03KillTask
			var killed, ok bool
			mode := "event"
			if k.eventFrac > 0 {
				ev := 1 + int(k.eventFrac*float64(nEvents-1))
				task, killed, ok = run(tag, ev, 0)
				tag = fmt.Sprintf("event-%d/%d", ev, nEvents)
			} else {
				mode = "timer"
				// the timer is armed at history start; the dry run tells how long the history takes
				us := int(k.timeFrac * float64(durUs))
				task, killed, ok = run(tag, 0, us)
				tag = fmt.Sprintf("timer-%dus", us)
			}
			if !ok {
				continue
			}
			started, acked, inflight, done, _ := c03ReadAck(task.AckLog)
			ackedW := 0
			set := map[int]bool{}
			for _, i := range acked {
				set[i] = true
				if all[i].Kind == "W" {
					ackedW++
				}
			}
			rec.Case(killed && ackedW > 0, h.canon()+"/"+tag)
			rec.Label("kill:" + mode)
			if !killed {
				rec.Label("kill:child-finished-first")
			}
			if !started {
				rec.Label("kill:before-history")
				continue
			}
			if inflight >= 0 {
				rec.Label("kill:inflight=" + all[inflight].Kind)
			} else if killed {
				rec.Label("kill:between-ops")
			}
			_ = done
			// classify and list the directory the dead process left BEFORE the restart cleans it up
			sigIfWrong := c03Sig(task.Dir, "fast-path")
			left := vcrash.Listing(task.Dir)
			res := c03Restart(task.Dir, nil)
			if res.err != nil {
				if errors.Is(res.err, errC03Infra) {
					rec.Label("inconclusive:" + res.stage)
					continue
				}
				sig := fmt.Sprintf("C03/kill/restart-%s-failed/inflight=%s", res.stage, c03KindOf(all, inflight))
				if rec.KnownHit(sig, "node does not restart after a kill") {
					continue
				}
				rt.Fatalf("%s", rec.Violation(sig, "history {%s}, %s (in flight: %s): restart failed at %s: %v; directory: %s", h.canon(), tag, c03KindOf(all, inflight), res.stage, res.err, left))
			}
			rec.Label("kill:restart=" + res.path)
			want := modelOf(set)
			if res.dump == want {
				continue
			}
			if inflight >= 0 && all[inflight].Kind == "W" {
				set[inflight] = true
				if res.dump == modelOf(set) {
					rec.Label("kill:inflight-write-survived")
					continue
				}
			}
			sig := "C03/kill/content-differs/" + res.path
			if res.path == "fast-path" && sigIfWrong == c03KnownFingerprint {
				sig = c03KnownFingerprint
			}
			if rec.KnownHit(sig, c03KnownWhat) {
				continue
			}
			rt.Fatalf("%s", rec.Violation(sig, "history {%s}, %s (in flight: %s, restart via %s): database after restart matches neither the acknowledged operations nor those plus the one in flight; directory: %s\n--- want (acknowledged)\n%s--- got\n%s",
				h.canon(), tag, c03KindOf(all, inflight), res.path, left, c03Short(want), c03Short(res.dump)))
		}
	})
}

func c03KindOf(all []c03Op, i int) string {
	if i < 0 || i >= len(all) {
		return "none"
	}
	return all[i].String()
}
