package store

// C04, follower side: a node that INSTALLS a snapshot (raft InstallSnapshot ->
// fsmRestore) while it still holds a WAL staged by an earlier snapshot of its
// own whose persist was skipped.
//
// Two real nodes: leader A and follower B (read-only or voter). Generated:
// numbers and sizes of the write requests in every phase, whether B has a
// retained staged WAL (membership change on A right before B.Snapshot()),
// whether A loads a different database while B is cut off, how many unreaped
// incremental snapshots the leader has when B installs (B then receives a full
// snapshot that carries WAL files), how many incremental snapshots B adds, and
// whether B's store is reaped afterwards.
// B is partitioned through the harness network layer (it stays open, so its
// staging directory is not wiped by a restart), A writes and snapshots with 1
// trailing log, B is reconnected and has to install A's snapshot; then more
// writes and an incremental snapshot on B.
//
// Oracle: B's dump == model after the install and at the end; a copy of B's
// data directory without SQLite file and fingerprint must restore (newest
// snapshot of B's store) to exactly B's applied state, integrity_check ok; a
// restart of B must converge to the model again.

import (
	"fmt"
	"os"
	"path/filepath"
	"strings"
	"testing"
	"time"

	"github.com/rqlite/rqlite/v10/internal/verif/vstat"
	"pgregory.net/rapid"
)

func TestVerif_C04_Install(t *testing.T) {
	rec := vstat.New(t, "C04", "install",
		"two real nodes; generated write phases; follower B optionally keeps a staged WAL from a snapshot whose persist raft skipped (membership change just before), is partitioned (stays open), leader writes / optionally loads / snapshots with 1 trailing log, B reconnects and installs the snapshot, more writes, incremental snapshot on B; oracle = B equals model, and a copy of B's directory restores to B's applied state; non-trivial = B installed a snapshot and snapshotted afterwards, and either held a retained staged WAL at the install or received a full-with-WALs snapshot and had its store reaped; distinct = hash of the generated phases")
	rapid.Check(t, func(rt *rapid.T) { c04InstallCase(rt, rec) })
}

func c04InstallCase(rt *rapid.T, rec *vstat.Rec) {
	g8aNextCase()
	base, err := os.MkdirTemp("", "c04i")
	if err != nil {
		rt.Skip("tempdir")
	}
	defer os.RemoveAll(base)
	hb := 250 * time.Millisecond
	a, err := g8aNewStore(filepath.Join(base, "a"), "a", g8aOpts{Heartbeat: hb, ReapThreshold: 1000, NoSnapshotOnClose: true})
	if err != nil {
		rt.Skip("listen")
	}
	defer g8aCloseQuiet(a)
	if err := g8aOpenSingle(a, true); err != nil {
		rec.Label("infra:open-a")
		return
	}
	dirB := filepath.Join(base, "b")
	b, err := g8aNewStore(dirB, "b", g8aOpts{Heartbeat: hb, ReapThreshold: 1000, NoSnapshotOnClose: true})
	if err != nil {
		rt.Skip("listen")
	}
	defer func() { g8aCloseQuiet(b) }()
	if err := b.Open(); err != nil {
		rec.Label("infra:open-b")
		return
	}
	model, err := g8aNewModel(base)
	if err != nil {
		return
	}
	defer model.Close()

	var hist []string
	sigShape := false
	stamp := 0
	fail := func(sig, format string, args ...any) {
		rt.Fatalf("%s", rec.Violation(sig, "%s | history: %s", fmt.Sprintf(format, args...), strings.Join(hist, " ; ")))
	}
	known := "a WAL staged on a follower by a snapshot whose persist was skipped survives a snapshot install (fsmRestore) and is shipped with the follower's next incremental snapshot"
	sig := func(generic string) string {
		if sigShape {
			return "C04/stale-staged-wal-shipped-after-snapshot-install"
		}
		return generic
	}
	inconclusive := func(what string) {
		rec.Label("inconclusive:" + what)
	}
	writes := func(phase string, lo, hi int) bool {
		n := rapid.IntRange(lo, hi).Draw(rt, phase)
		for i := 0; i < n; i++ {
			var bt []string
			if rapid.IntRange(0, 2).Draw(rt, "big") == 0 {
				bt = g8aBigBatch(rt)
			} else {
				bt = g8aSmallBatch(rt)
			}
			// every request also rewrites all rows of a fixed-shape table, so
			// that WALs replayed out of order or skipped show up as old values
			// even when the page structure never changes
			stamp++
			bt = append(bt,
				"CREATE TABLE IF NOT EXISTS stamp (id INTEGER PRIMARY KEY, v INTEGER, pad TEXT)",
				"INSERT OR IGNORE INTO stamp(id, v, pad) WITH RECURSIVE n(i) AS (SELECT 1 UNION ALL SELECT i+1 FROM n WHERE i < 120) SELECT i, 0, 'xxxxxxxxxxxxxxxxxxxxxxxxxxxxxxxxxxxxxxxx' FROM n",
				fmt.Sprintf("UPDATE stamp SET v = %d", stamp))
			if err := g8aExec(a, bt); err != nil {
				inconclusive("write-error")
				return false
			}
			model.Exec(bt)
		}
		hist = append(hist, fmt.Sprintf("%s:W x%d", phase, n))
		return true
	}
	caughtUp := func() bool {
		if !g8aWaitApplied(a, b, time.Now().Add(40*time.Second)) {
			inconclusive("b-did-not-catch-up")
			return false
		}
		return true
	}
	checkB := func(when, generic string) bool {
		want, _ := model.Dump()
		got, err := g8aDumpLive(b)
		if err != nil || got != want {
			s := sig(generic)
			if rec.KnownHit(s, known) {
				return false
			}
			fail(s, "follower differs from the model %s: %v %s; model {%s} follower {%s}", when, err, g8aFirstDiff(got, want), g8aSummary(want), g8aSummary(got))
		}
		return true
	}

	voter := rapid.IntRange(0, 3).Draw(rt, "bVoter") == 0
	if err := a.Join(joinRequest("b", b.Addr(), voter)); err != nil {
		inconclusive("join-b")
		return
	}
	hist = append(hist, fmt.Sprintf("JOIN(b,voter=%v)", voter))
	if !writes("p1", 1, 3) || !caughtUp() {
		return
	}
	if err := a.Snapshot(0); err != nil {
		hist = append(hist, "A.SNAP(err)")
	} else {
		hist = append(hist, "A.SNAP(full)")
	}
	if err := b.Snapshot(0); err != nil {
		hist = append(hist, "B.SNAP(err)")
	} else {
		hist = append(hist, "B.SNAP(full)")
	}
	if !writes("p2", 1, 2) || !caughtUp() {
		return
	}

	// ---- a snapshot on B whose persist raft skips: staged WAL retained
	retained := false
	if rapid.IntRange(0, 4).Draw(rt, "skipPersist") != 0 {
		addr, release := g8aReserveAddr()
		defer release()
		if err := a.Join(joinRequest("nv", addr, false)); err != nil {
			inconclusive("join-nv")
			return
		}
		if !caughtUp() {
			return
		}
		err := b.Snapshot(0)
		w, _ := b.StagedWALs()
		retained = err != nil && len(w) > 0
		hist = append(hist, fmt.Sprintf("A.JOIN(nv) ; B.SNAP(err=%v,staged=%d)", err != nil, len(w)))
	}

	// ---- cut B off; A moves on and compacts its log
	lb := b.ly.(*g8aLayer)
	lb.SetBlocked(true)
	hist = append(hist, "PARTITION(b)")
	if voter {
		// A alone has no quorum while a voter is unreachable: B has to become
		// a non-voter first. Not this check's business: keep B read-only.
		lb.SetBlocked(false)
		if err := a.Join(joinRequest("b", b.Addr(), false)); err != nil {
			inconclusive("demote-b")
			return
		}
		if !caughtUp() {
			return
		}
		lb.SetBlocked(true)
		hist = append(hist, "DEMOTE(b) ; PARTITION(b)")
	}
	if rapid.IntRange(0, 2).Draw(rt, "loadWhileCut") == 0 {
		spec := g8aGenLoadSpec(rt)
		p := filepath.Join(base, "load.db")
		if err := g8aBuildDBFile(spec, p); err != nil {
			rt.Skip("build")
		}
		if err := g8aLoadFile(a, p); err != nil {
			inconclusive("load-error")
			return
		}
		model.ReplaceWithFile(p)
		hist = append(hist, "A.LOAD"+spec.String())
	}
	// the leader's store collects incrementals that are not reaped, so that the
	// snapshot B installs is a full database plus WAL files
	rounds := rapid.IntRange(1, 3).Draw(rt, "leaderSnapshotRounds")
	for r := 0; r < rounds; r++ {
		if !writes("p3", 1, 2) {
			return
		}
		if err := a.Snapshot(1); err != nil {
			hist = append(hist, "A.SNAP(err="+err.Error()+")")
			inconclusive("leader-snapshot-failed")
			return
		}
		hist = append(hist, "A.SNAP(trailing=1)")
	}
	if !writes("p4", 1, 2) {
		return
	}
	restoresBefore := stats.Get(numRestores).String()
	stagedAtInstall := 0
	stagedNames := ""
	if w, _ := b.StagedWALs(); w != nil {
		stagedAtInstall = len(w)
		stagedNames = fmt.Sprint(w)
	}
	lb.SetBlocked(false)
	hist = append(hist, "HEAL(b)")
	if !caughtUp() {
		return
	}
	installed := stats.Get(numRestores).String() != restoresBefore
	stagedAfterInstall := 0
	if w, _ := b.StagedWALs(); w != nil {
		// only files that were already staged before the install count
		for _, f := range w {
			if strings.Contains(stagedNames, f) {
				stagedAfterInstall++
			}
		}
	}
	hist = append(hist, fmt.Sprintf("B caught up (install=%v, staged %d->%d)", installed, stagedAtInstall, stagedAfterInstall))
	if !checkB("after reconnecting", "C04/follower-differs-after-install") {
		return
	}

	// from here on every failure of this shape is the stale staged WAL's
	sigShape = retained && installed && stagedAtInstall > 0 && stagedAfterInstall > 0

	// did B receive a full snapshot that carries WAL files?
	fullWithWALs := false
	if dbs, _ := filepath.Glob(filepath.Join(b.snapshotDir, "*", "*.db")); dbs != nil {
		for _, d := range dbs {
			if w, _ := filepath.Glob(filepath.Join(filepath.Dir(d), "*.wal")); len(w) > 0 {
				fullWithWALs = true
			}
		}
	}

	// ---- more writes and incremental snapshots on B
	var snapErr error
	kind := "none"
	bRounds := rapid.IntRange(1, 3).Draw(rt, "followerSnapshotRounds")
	for r := 0; r < bRounds; r++ {
		if !writes("p5", 1, 2) || !caughtUp() {
			return
		}
		incBefore := b.numIncSnapshots.Load()
		fullBefore := b.numFullSnapshots
		snapErr = b.Snapshot(0)
		kind = "none"
		if b.numIncSnapshots.Load() > incBefore {
			kind = "inc"
		} else if b.numFullSnapshots > fullBefore {
			kind = "full"
		}
		hist = append(hist, fmt.Sprintf("B.SNAP(%s,err=%v)", kind, snapErr != nil))
	}
	reaped := false
	if rapid.IntRange(0, 2).Draw(rt, "reapB") != 0 {
		n, w, err := b.Reap()
		switch {
		case err != nil && strings.Contains(err.Error(), "MSRW conflict"):
			hist = append(hist, "B.REAP(busy)")
		case err != nil:
			fail(sig("C04/reap-error"), "explicit reap of the follower's store failed: %v", err)
		default:
			reaped = true
			hist = append(hist, fmt.Sprintf("B.REAP(%d,%d)", n, w))
		}
	}

	nontrivial := installed && snapErr == nil && (retained || (fullWithWALs && reaped))
	rec.Case(nontrivial, strings.Join(hist, ";"))
	if retained {
		rec.Label("b-staged-wal-retained")
	}
	if fullWithWALs {
		rec.Label("b-installed-full-with-wals")
	}
	if reaped {
		rec.Label("b-store-reaped")
	}
	if fullWithWALs && reaped && snapErr == nil {
		rec.Label("reap-of-installed-full-with-wals-after-own-incrementals")
	}
	if installed {
		rec.Label("b-installed-snapshot")
	} else {
		rec.Label("b-caught-up-by-log")
	}
	if stagedAtInstall > 0 && stagedAfterInstall > 0 {
		rec.Label("staged-wal-survived-install")
	}
	rec.Label("b-final-snapshot:" + kind)
	rec.Sample(strings.Join(hist, " ; "))

	if !checkB("after the final snapshot", "C04/follower-differs") {
		return
	}
	if snapErr == nil {
		live, _ := g8aDumpLive(b)
		d, ic, openErr, infraErr := g8aRestoreOnly(dirB, filepath.Join(base, "bcopy"), "b")
		if infraErr != nil {
			inconclusive("restore-infra")
			return
		}
		hist = append(hist, "RESTORE-COPY(b)")
		if openErr != nil {
			s := sig("C04/follower-store-not-restorable")
			if rec.KnownHit(s, known) {
				return
			}
			fail(s, "a copy of the follower's data directory cannot be restored: %v", openErr)
		}
		if d != live || ic != "ok" {
			s := sig("C04/follower-restore-differs")
			if rec.KnownHit(s, known) {
				return
			}
			fail(s, "the follower's snapshot store restores to something else than its applied state (integrity %q): %s; live {%s} restored {%s}", ic, g8aFirstDiff(d, live), g8aSummary(live), g8aSummary(d))
		}
	}

	// ---- restart B in place
	addrB := b.Addr()
	if err := g8aClose(b); err != nil {
		fail("C04/close-error", "close of the follower failed: %v", err)
	}
	b.ly.Close()
	b2, err := g8aNewStore(dirB, "b", g8aOpts{Heartbeat: hb, ReapThreshold: 1000, NoSnapshotOnClose: true, Addr: addrB})
	if err != nil {
		rec.Label("infra:relisten")
		return
	}
	b = b2
	if rapid.Bool().Draw(rt, "forceRestore") {
		b.ForceSnapshotRestore()
		hist = append(hist, "RESTART(b,forced restore)")
	} else {
		hist = append(hist, "RESTART(b)")
	}
	if err := b.Open(); err != nil {
		s := sig("C04/follower-restart-failed")
		if rec.KnownHit(s, known) {
			return
		}
		fail(s, "restart of the follower failed: %v", err)
	}
	if !caughtUp() {
		return
	}
	checkB("after its restart", "C04/follower-differs-after-restart")
}
