package store

// Shared helpers of group g8a-storehist (C33, C04, C22, C01): a real
// store.Store on 127.0.0.1:0 with fast raft timeouts, deterministic SQL write
// generators, generated SQLite files for loads, and an independent model
// database driven through the raw driver (vsql).
//
// Everything here is prefixed g8a to stay out of the way of other groups that
// also compile harness files into package store.

import (
	"context"
	crand "crypto/rand"
	"database/sql"
	"encoding/binary"
	"encoding/json"
	"fmt"
	"io"
	"log"
	"net"
	"os"
	"path/filepath"
	"sort"
	"strings"
	"sync"
	"sync/atomic"
	"time"

	"github.com/hashicorp/raft"
	"github.com/rqlite/rqlite/v10/command/proto"
	"github.com/rqlite/rqlite/v10/internal/verif/vsql"
	"pgregory.net/rapid"
)

// ---------------------------------------------------------------- network

// Every connection between the group's nodes starts with an 8-byte token that
// is unique per process and per case. Raft itself has no cluster identity: on
// a machine where many harness processes recycle loopback ports, a leader of
// some other test that still dials a released port would otherwise be able to
// replicate its log into one of our nodes (and ours into theirs).
var (
	g8aProcToken = func() [6]byte {
		var b [6]byte
		crand.Read(b[:])
		return b
	}()
	g8aCaseSeq atomic.Uint32
)

// g8aNextCase starts a new token epoch; call it at the start of every case.
func g8aNextCase() { g8aCaseSeq.Add(1) }

// G8aNextCase is the exported alias.
var G8aNextCase = g8aNextCase

func g8aToken() [8]byte {
	var t [8]byte
	copy(t[:6], g8aProcToken[:])
	binary.BigEndian.PutUint16(t[6:], uint16(g8aCaseSeq.Load()))
	return t
}

type g8aLayer struct {
	ln    net.Listener
	token [8]byte

	mu      sync.Mutex
	blocked bool
	conns   []net.Conn
}

func g8aListen(addr string) (*g8aLayer, error) {
	ln, err := net.Listen("tcp", addr)
	if err != nil {
		return nil, err
	}
	return &g8aLayer{ln: ln, token: g8aToken()}, nil
}

// SetBlocked partitions the node from (true) or reconnects it to (false) the
// network: while blocked every dial fails, every accepted connection is
// dropped and all established connections are closed.
func (l *g8aLayer) SetBlocked(b bool) {
	l.mu.Lock()
	l.blocked = b
	conns := l.conns
	if b {
		l.conns = nil
	}
	l.mu.Unlock()
	if b {
		for _, c := range conns {
			c.Close()
		}
	}
}

func (l *g8aLayer) track(c net.Conn) bool {
	l.mu.Lock()
	defer l.mu.Unlock()
	if l.blocked {
		return false
	}
	if len(l.conns) > 256 {
		l.conns = l.conns[128:]
	}
	l.conns = append(l.conns, c)
	return true
}

func (l *g8aLayer) Dial(addr string, timeout time.Duration) (net.Conn, error) {
	l.mu.Lock()
	blocked := l.blocked
	l.mu.Unlock()
	if blocked {
		return nil, fmt.Errorf("partitioned")
	}
	c, err := net.DialTimeout("tcp", addr, timeout)
	if err != nil {
		return nil, err
	}
	c.SetWriteDeadline(time.Now().Add(timeout))
	if _, err := c.Write(l.token[:]); err != nil {
		c.Close()
		return nil, err
	}
	c.SetWriteDeadline(time.Time{})
	if !l.track(c) {
		c.Close()
		return nil, fmt.Errorf("partitioned")
	}
	return c, nil
}

// g8aConn verifies the token lazily on the first Read, so that a silent
// foreign connection cannot stall the accept loop.
type g8aConn struct {
	net.Conn
	token   [8]byte
	checked bool
}

func (c *g8aConn) Read(p []byte) (int, error) {
	if !c.checked {
		var got [8]byte
		if _, err := io.ReadFull(c.Conn, got[:]); err != nil {
			return 0, err
		}
		if got != c.token {
			c.Conn.Close()
			return 0, fmt.Errorf("connection from a foreign test node rejected")
		}
		c.checked = true
	}
	return c.Conn.Read(p)
}

func (l *g8aLayer) Accept() (net.Conn, error) {
	for {
		c, err := l.ln.Accept()
		if err != nil {
			return nil, err
		}
		if !l.track(c) {
			c.Close()
			continue
		}
		return &g8aConn{Conn: c, token: l.token}, nil
	}
}
func (l *g8aLayer) Close() error   { return l.ln.Close() }
func (l *g8aLayer) Addr() net.Addr { return l.ln.Addr() }

// g8aReserveAddr returns a loopback address at which no raft node will ever
// answer, and a function that releases it. The port stays bound (connections
// are accepted and closed at once) until release is called, so that the kernel
// cannot hand it to another test node meanwhile: a leader that keeps dialling a
// recycled port would otherwise replicate its log into a foreign node (raft has
// no cluster identity) - seen once as rows of another history in a rebuilt
// database.
func g8aReserveAddr() (addr string, release func()) {
	ln, err := net.Listen("tcp", "127.0.0.1:0")
	if err != nil {
		return "127.0.0.1:1", func() {}
	}
	go func() {
		for {
			c, err := ln.Accept()
			if err != nil {
				return
			}
			c.Close()
		}
	}()
	return ln.Addr().String(), func() { ln.Close() }
}

// ------------------------------------------------------------------ store

type g8aOpts struct {
	NoSnapshotOnClose bool
	SnapshotThreshold uint64        // 0: effectively never
	SnapshotInterval  time.Duration // 0: effectively never
	ReapThreshold     int
	Heartbeat         time.Duration // 0: 150ms
	Addr              string        // "" => 127.0.0.1:0
}

var g8aLogW io.Writer = func() io.Writer {
	if os.Getenv("VERIF_G8A_LOG") != "" {
		return os.Stderr
	}
	return io.Discard
}()

// g8aNewStore creates (does not open) a Store on dir.
func g8aNewStore(dir, id string, o g8aOpts) (*Store, error) {
	addr := o.Addr
	if addr == "" {
		addr = "127.0.0.1:0"
	}
	ly, err := g8aListen(addr)
	if err != nil {
		return nil, err
	}
	s := New(&Config{
		DBConf: NewDBConfig(),
		Dir:    dir,
		ID:     id,
		Logger: log.New(g8aLogW, "[store "+id+"] ", log.LstdFlags|log.Lmicroseconds),
	}, ly)
	hb := o.Heartbeat
	if hb == 0 {
		hb = 150 * time.Millisecond
	}
	s.HeartbeatTimeout = hb
	s.ElectionTimeout = hb
	s.LeaderLeaseTimeout = hb
	s.CommitTimeout = 5 * time.Millisecond
	s.RaftLogLevel = "OFF"
	if os.Getenv("VERIF_G8A_LOG") != "" {
		s.RaftLogLevel = "INFO"
	}
	s.NoSnapshotOnClose = o.NoSnapshotOnClose
	s.SnapshotThreshold = 1 << 40
	s.SnapshotInterval = 24 * time.Hour
	if o.SnapshotThreshold != 0 {
		s.SnapshotThreshold = o.SnapshotThreshold
	}
	if o.SnapshotInterval != 0 {
		s.SnapshotInterval = o.SnapshotInterval
	}
	if o.ReapThreshold != 0 {
		s.SnapshotReapThreshold = o.ReapThreshold
	}
	return s, nil
}

// g8aOpenSingle opens s and, when bootstrap is set, bootstraps it as a
// single-node cluster; then waits for it to lead. A returned error is an
// infrastructure problem unless the caller decides otherwise.
func g8aOpenSingle(s *Store, bootstrap bool) error {
	if err := s.Open(); err != nil {
		return fmt.Errorf("open: %w", err)
	}
	if bootstrap {
		if err := s.Bootstrap(NewServer(s.ID(), s.Addr(), true)); err != nil {
			return fmt.Errorf("bootstrap: %w", err)
		}
	}
	return g8aWaitLeaderSelf(s, 30*time.Second)
}

// g8aWaitLeaderSelf waits until s is the leader and everything in its log has
// been applied to the FSM.
func g8aWaitLeaderSelf(s *Store, d time.Duration) error {
	deadline := time.Now().Add(d)
	for time.Now().Before(deadline) {
		if s.IsLeader() {
			if err := g8aBarrier(s, 10*time.Second); err == nil {
				return nil
			}
		}
		time.Sleep(10 * time.Millisecond)
	}
	return fmt.Errorf("node %s did not become leader within %s", s.ID(), d)
}

// g8aExec sends the statements as one non-transactional execute request
// straight to Store.Execute (no rewriting; statements are deterministic).
func g8aExec(s *Store, stmts []string) error {
	_, _, err := s.Execute(context.Background(), executeRequestFromStrings(stmts, false, false))
	return err
}

// g8aDumpLive dumps the node's SQLite file (+WAL) through the raw driver. The
// node must be quiescent (no request in flight).
func g8aDumpLive(s *Store) (string, error) {
	// Hold the store's snapshot gate while the files are copied: a snapshot
	// triggered in the background (threshold mode) checkpoints the WAL into the
	// database file, and a copy taken across that is torn.
	deadline := time.Now().Add(20 * time.Second)
	for {
		if err := s.snapshotCAS.Begin("verif-dump"); err == nil {
			defer s.snapshotCAS.End()
			break
		}
		if time.Now().After(deadline) {
			return "", fmt.Errorf("snapshot gate busy for 20s")
		}
		time.Sleep(5 * time.Millisecond)
	}
	return vsql.DumpFile(s.dbPath)
}

func g8aNodesString(s *Store) (string, error) {
	ns, err := s.Nodes()
	if err != nil {
		return "", err
	}
	var parts []string
	for _, n := range ns {
		parts = append(parts, fmt.Sprintf("%s@%s/%s", n.ID, n.Addr, strings.ToLower(n.Suffrage.String())))
	}
	sort.Strings(parts)
	return strings.Join(parts, ","), nil
}

// g8aCloseQuiet closes a store for cleanup purposes.
func g8aCloseQuiet(s *Store) {
	if s == nil {
		return
	}
	s.NoSnapshotOnClose = true
	g8aClose(s)
	s.ly.Close()
}

// g8aClose closes a node the safe way. hashicorp/raft has a shutdown race: an
// AppendEntries/heartbeat from a peer that is being handled while Store.Close
// closes the bolt store panics the process ("failed to save current term:
// database not open"). So the node's links are cut first (no new RPC can
// arrive, established connections are closed), in-flight RPC handlers get a
// moment to finish, and only then is the store closed - with a bound.
func g8aClose(s *Store) error {
	if !s.open.Is() {
		return nil
	}
	if l, ok := s.ly.(*g8aLayer); ok {
		l.SetBlocked(true)
		time.Sleep(150 * time.Millisecond)
	}
	ch := make(chan error, 1)
	go func() { ch <- s.Close(true) }()
	select {
	case err := <-ch:
		return err
	case <-time.After(90 * time.Second):
		return fmt.Errorf("Store.Close did not return within 90s")
	}
}

// G8aClose is the exported alias.
var G8aClose = g8aClose

// ------------------------------------------------------------------ model

// g8aModel is an independent SQLite database (raw driver) that receives the
// same deterministic statements as the node; a load replaces it by the loaded
// file.
type g8aModel struct {
	dir  string
	path string
	db   *sql.DB
}

func g8aNewModel(dir string) (*g8aModel, error) {
	m := &g8aModel{dir: dir, path: filepath.Join(dir, "model.db")}
	db, err := vsql.Open(m.path)
	if err != nil {
		return nil, err
	}
	m.db = db
	return m, nil
}

// Exec applies each statement on its own (as a non-transactional rqlite
// request does); statement errors are ignored just as rqlite reports them per
// statement and continues.
func (m *g8aModel) Exec(stmts []string) {
	for _, st := range stmts {
		m.db.Exec(st)
	}
}

// ExecTx applies the statements atomically (all or nothing).
func (m *g8aModel) ExecTx(stmts []string) {
	tx, err := m.db.Begin()
	if err != nil {
		return
	}
	for _, st := range stmts {
		if _, err := tx.Exec(st); err != nil {
			tx.Rollback()
			return
		}
	}
	tx.Commit()
}

func (m *g8aModel) ReplaceWithFile(src string) error {
	m.db.Close()
	os.Remove(m.path + "-wal")
	os.Remove(m.path + "-shm")
	os.Remove(m.path + "-journal")
	if err := vsql.CopyFile(src, m.path); err != nil {
		return err
	}
	db, err := vsql.Open(m.path)
	if err != nil {
		return err
	}
	m.db = db
	return nil
}

func (m *g8aModel) Dump() (string, error) { return vsql.DumpDB(m.db) }
func (m *g8aModel) Close()                { m.db.Close() }

// ------------------------------------------------------------- generators

const g8aNTables = 3

func g8aCreate(t int) string {
	return fmt.Sprintf("CREATE TABLE IF NOT EXISTS t%d (id INTEGER PRIMARY KEY, k INTEGER, v TEXT, b BLOB)", t)
}

func g8aText(rt *rapid.T) string {
	n := rapid.IntRange(0, 12).Draw(rt, "tlen")
	const al = "abcxyz 09_-"
	var sb strings.Builder
	for i := 0; i < n; i++ {
		sb.WriteByte(al[rapid.IntRange(0, len(al)-1).Draw(rt, "tc")])
	}
	return sb.String()
}

func g8aHex(rt *rapid.T) string {
	n := rapid.IntRange(0, 6).Draw(rt, "blen")
	var sb strings.Builder
	for i := 0; i < n; i++ {
		fmt.Fprintf(&sb, "%02x", rapid.IntRange(0, 255).Draw(rt, "bb"))
	}
	return sb.String()
}

// g8aSmallBatch is a request of 1..4 deterministic statements touching few
// rows.
func g8aSmallBatch(rt *rapid.T) []string {
	tb := rapid.IntRange(0, g8aNTables-1).Draw(rt, "table")
	out := []string{g8aCreate(tb)}
	n := rapid.IntRange(1, 4).Draw(rt, "nstmt")
	for i := 0; i < n; i++ {
		switch rapid.IntRange(0, 9).Draw(rt, "kind") {
		case 0, 1, 2, 3:
			rows := rapid.IntRange(1, 3).Draw(rt, "rows")
			var vs []string
			for r := 0; r < rows; r++ {
				vs = append(vs, fmt.Sprintf("(%d,'%s',x'%s')", rapid.IntRange(-5, 1000).Draw(rt, "k"), g8aText(rt), g8aHex(rt)))
			}
			out = append(out, fmt.Sprintf("INSERT INTO t%d(k,v,b) VALUES %s", tb, strings.Join(vs, ",")))
		case 4:
			out = append(out, fmt.Sprintf("INSERT OR REPLACE INTO t%d(id,k,v) VALUES (%d,%d,'%s')", tb,
				rapid.IntRange(1, 12).Draw(rt, "id"), rapid.IntRange(0, 99).Draw(rt, "k"), g8aText(rt)))
		case 5, 6:
			m := rapid.IntRange(1, 5).Draw(rt, "mod")
			out = append(out, fmt.Sprintf("UPDATE t%d SET k=k+%d, v='%s' WHERE id %% %d = %d", tb,
				rapid.IntRange(1, 9).Draw(rt, "inc"), g8aText(rt), m, rapid.IntRange(0, m-1).Draw(rt, "rem")))
		case 7:
			m := rapid.IntRange(2, 7).Draw(rt, "mod")
			out = append(out, fmt.Sprintf("DELETE FROM t%d WHERE id %% %d = %d", tb, m, rapid.IntRange(0, m-1).Draw(rt, "rem")))
		case 8:
			if rapid.Bool().Draw(rt, "mkidx") {
				out = append(out, fmt.Sprintf("CREATE INDEX IF NOT EXISTS i%d ON t%d(k)", tb, tb))
			} else {
				out = append(out, fmt.Sprintf("DROP INDEX IF EXISTS i%d", tb))
			}
		case 9:
			if rapid.IntRange(0, 3).Draw(rt, "drop") == 0 {
				out = append(out, fmt.Sprintf("DROP TABLE IF EXISTS t%d", tb))
			} else {
				out = append(out, fmt.Sprintf("INSERT INTO t%d(k,v) SELECT k+1, v||'+' FROM t%d WHERE id %% 3 = 0", tb, tb))
			}
		}
	}
	return out
}

// g8aBigBatch touches many pages: bulk insert of wide rows through a
// recursive CTE, or a whole-table rewrite.
func g8aBigBatch(rt *rapid.T) []string {
	tb := rapid.IntRange(0, g8aNTables-1).Draw(rt, "table")
	out := []string{g8aCreate(tb)}
	switch rapid.IntRange(0, 3).Draw(rt, "bigkind") {
	case 0, 1:
		rows := rapid.IntRange(20, 160).Draw(rt, "rows")
		width := rapid.IntRange(40, 700).Draw(rt, "width")
		out = append(out, fmt.Sprintf(
			"WITH RECURSIVE c(x) AS (SELECT 1 UNION ALL SELECT x+1 FROM c WHERE x<%d) INSERT INTO t%d(k,v) SELECT x, printf('%%0%dd', x) FROM c",
			rows, tb, width))
	case 2:
		out = append(out, fmt.Sprintf("UPDATE t%d SET v = v || '%s', k = k + 1", tb, g8aText(rt)+"#"))
	case 3:
		m := rapid.IntRange(2, 4).Draw(rt, "mod")
		out = append(out, fmt.Sprintf("DELETE FROM t%d WHERE id %% %d = 0", tb, m))
		out = append(out, fmt.Sprintf("INSERT INTO t%d(k,v,b) SELECT k, v, zeroblob(%d) FROM t%d WHERE id %% 5 = 1", tb, rapid.IntRange(100, 3000).Draw(rt, "zb"), tb))
	}
	return out
}

// g8aLoadSpec describes a generated SQLite file used for load/boot.
type g8aLoadSpec struct {
	WAL      bool
	PageSize int
	Batches  [][]string
}

func (l g8aLoadSpec) String() string {
	n := 0
	for _, b := range l.Batches {
		n += len(b)
	}
	return fmt.Sprintf("db{wal=%v,page=%d,stmts=%d}", l.WAL, l.PageSize, n)
}

func g8aGenLoadSpec(rt *rapid.T) g8aLoadSpec {
	l := g8aLoadSpec{
		WAL:      rapid.Bool().Draw(rt, "loadwal"),
		PageSize: rapid.SampledFrom([]int{512, 1024, 4096, 4096, 8192, 65536}).Draw(rt, "pagesize"),
	}
	n := rapid.IntRange(0, 3).Draw(rt, "loadbatches")
	for i := 0; i < n; i++ {
		if rapid.IntRange(0, 3).Draw(rt, "loadbig") == 0 {
			l.Batches = append(l.Batches, g8aBigBatch(rt))
		} else {
			l.Batches = append(l.Batches, g8aSmallBatch(rt))
		}
	}
	// a marker table so that every loaded database is recognisable
	l.Batches = append(l.Batches, []string{
		"CREATE TABLE IF NOT EXISTS loaded (tag TEXT)",
		fmt.Sprintf("INSERT INTO loaded VALUES ('%s')", g8aText(rt)),
	})
	return l
}

// g8aBuildDBFile materialises spec as a single SQLite file (no -wal left
// behind) through the raw driver.
func g8aBuildDBFile(spec g8aLoadSpec, path string) error {
	os.Remove(path)
	db, err := vsql.Open(path)
	if err != nil {
		return err
	}
	if _, err := db.Exec(fmt.Sprintf("PRAGMA page_size=%d", spec.PageSize)); err != nil {
		db.Close()
		return err
	}
	mode := "DELETE"
	if spec.WAL {
		mode = "WAL"
	}
	var got string
	if err := db.QueryRow("PRAGMA journal_mode=" + mode).Scan(&got); err != nil {
		db.Close()
		return err
	}
	for _, b := range spec.Batches {
		for _, st := range b {
			db.Exec(st)
		}
	}
	if spec.WAL {
		var a, b, c int
		if err := db.QueryRow("PRAGMA wal_checkpoint(TRUNCATE)").Scan(&a, &b, &c); err != nil {
			db.Close()
			return err
		}
	}
	if err := db.Close(); err != nil {
		return err
	}
	os.Remove(path + "-wal")
	os.Remove(path + "-shm")
	return nil
}

// g8aLoadFile sends the file through Store.Load (the raft log).
func g8aLoadFile(s *Store, path string) error {
	b, err := os.ReadFile(path)
	if err != nil {
		return err
	}
	return s.Load(context.Background(), &proto.LoadRequest{Data: b})
}

// ------------------------------------------------------------- rebuilding

// g8aRebuildFromStore copies the (quiescent or closed) data directory src to
// dst, removes the SQLite files and the clean-snapshot fingerprint from the
// copy and opens a fresh Store on it, which therefore must restore the newest
// snapshot and replay the log after it. It returns the dump of the rebuilt
// database and the result of integrity_check. openErr is the error of
// Store.Open / of reaching the applied state (that is a verdict, not
// infrastructure); infraErr is a harness problem.
func g8aRebuildFromStore(src, dst, id string) (dump, integrity string, openErr, infraErr error) {
	if err := vsql.CopyDir(src, dst); err != nil {
		return "", "", nil, fmt.Errorf("copy: %w", err)
	}
	for _, f := range []string{sqliteFile, sqliteFile + "-wal", sqliteFile + "-shm", cleanSnapshotName} {
		os.Remove(filepath.Join(dst, f))
	}
	// leftovers of the live node that a stopped node would not have
	os.RemoveAll(filepath.Join(dst, "raft", "peers.json"))
	s, err := g8aNewStore(dst, id, g8aOpts{NoSnapshotOnClose: true})
	if err != nil {
		return "", "", nil, err
	}
	// the copy must not talk to the live cluster
	s.ly.(*g8aLayer).SetBlocked(true)
	defer s.ly.Close()
	if err := s.Open(); err != nil {
		return "", "", err, nil
	}
	defer g8aClose(s)
	if err := g8aWaitLeaderSelf(s, 30*time.Second); err != nil {
		// a node whose configuration contains other voters cannot lead; its
		// snapshot has been restored though, and unreplayed log entries are
		// the caller's business.
		return "", "", nil, fmt.Errorf("rebuilt node: %w", err)
	}
	d, err := g8aDumpLive(s)
	if err != nil {
		return "", "", fmt.Errorf("dump of rebuilt database: %w", err), nil
	}
	ic, err := vsql.IntegrityCheck(s.dbPath)
	if err != nil {
		return d, "", fmt.Errorf("integrity_check of rebuilt database: %w", err), nil
	}
	return d, ic, nil, nil
}

// g8aPeersJSON renders a peers.json file.
type g8aPeer struct {
	ID       string `json:"id"`
	Address  string `json:"address"`
	NonVoter bool   `json:"non_voter"`
}

func g8aPeersJSON(ps []g8aPeer) string {
	b, _ := json.MarshalIndent(ps, "", " ")
	return string(b)
}

func g8aFirstDiff(a, b string) string {
	la, lb := strings.Split(a, "\n"), strings.Split(b, "\n")
	for i := 0; i < len(la) || i < len(lb); i++ {
		var x, y string
		if i < len(la) {
			x = la[i]
		}
		if i < len(lb) {
			y = lb[i]
		}
		if x != y {
			if len(x) > 160 {
				x = x[:160] + "..."
			}
			if len(y) > 160 {
				y = y[:160] + "..."
			}
			return fmt.Sprintf("line %d: %q vs %q (lines %d vs %d)", i+1, x, y, len(la), len(lb))
		}
	}
	return "identical"
}

func g8aSummary(d string) string {
	var parts []string
	for _, l := range strings.Split(d, "\n") {
		if strings.HasPrefix(l, "TABLE ") {
			parts = append(parts, strings.TrimPrefix(l, "TABLE "))
		}
	}
	return strings.Join(parts, "; ")
}

// g8aShort renders a request compactly for histories (the full statements are
// in rapid's draw log).
func g8aShort(stmts []string) string {
	last := stmts[len(stmts)-1]
	if len(last) > 70 {
		last = last[:70] + "..."
	}
	return fmt.Sprintf("[%d stmts, last: %s]", len(stmts), last)
}

// g8aWaitApplied waits until node f has applied (FSM included) everything the
// leader l has in its log. raft's AppliedIndex only says that an entry was
// handed to the FSM goroutine, so the FSM is considered drained when fsmIdx
// has reached the last *command* entry of f's own log (f's log holds every
// entry up to its applied index; the leader's log cannot be used for this: a
// snapshot with few trailing logs may have removed all command entries from
// it). Returns false when the deadline passes.
func g8aWaitApplied(l, f *Store, deadline time.Time) bool {
	for {
		last := l.raft.LastIndex()
		if f.raft.AppliedIndex() >= last {
			var lastCmd uint64
			if fi, li, err := f.boltStore.Indexes(); err == nil && li != 0 {
				lastCmd, _ = f.boltStore.LastCommandIndex(fi, li)
			}
			if f.fsmIdx.Load() >= lastCmd {
				return true
			}
		}
		if time.Now().After(deadline) {
			return false
		}
		time.Sleep(20 * time.Millisecond)
	}
}

// Exported aliases for the black-box (package store_test) checks of the group
// that need the HTTP layer and therefore cannot live inside package store.
var (
	G8aNewStore       = g8aNewStore
	G8aWaitLeaderSelf = g8aWaitLeaderSelf
	G8aWaitApplied    = g8aWaitApplied
	G8aDumpLive       = g8aDumpLive
	G8aCloseQuiet     = g8aCloseQuiet
	G8aFirstDiff      = g8aFirstDiff
	G8aSummary        = g8aSummary
	G8aPeersJSON      = g8aPeersJSON
)

// G8aOpts and G8aPeer are the exported names of the option/peer structs.
type (
	G8aOpts = g8aOpts
	G8aPeer = g8aPeer
)

// G8aLayerAddr returns the address the store's layer listens on (valid before Open).
func G8aLayerAddr(s *Store) string { return s.ly.Addr().String() }

// G8aCloseLayer closes the store's network layer.
func G8aCloseLayer(s *Store) { s.ly.Close() }

// G8aNumSnapshots returns the number of snapshots in the node's snapshot store.
func G8aNumSnapshots(s *Store) int {
	if ss, ok := s.snapshotStore.(interface{ Len() int }); ok {
		return ss.Len()
	}
	return -1
}

// g8aBarrier is Store.Barrier with a bound: raft's barrier future has no
// deadline of its own once the entry is appended (a leader that cannot reach
// a quorum would block the caller forever).
func g8aBarrier(s *Store, d time.Duration) error {
	ch := make(chan error, 1)
	go func() { ch <- s.Barrier() }()
	select {
	case err := <-ch:
		return err
	case <-time.After(d):
		return fmt.Errorf("barrier not completed within %s", d)
	}
}

// G8aBarrier is the exported alias.
var G8aBarrier = g8aBarrier

// g8aRestoreOnly copies the data directory src to dst, removes the SQLite
// files and the fingerprint and opens a Store on the copy without waiting for
// leadership: Open returns after raft restored the newest snapshot, which is
// all a node that cannot lead on its own (a follower's copy) will do. It
// returns the dump of that restored state.
func g8aRestoreOnly(src, dst, id string) (dump, integrity string, openErr, infraErr error) {
	if err := vsql.CopyDir(src, dst); err != nil {
		return "", "", nil, fmt.Errorf("copy: %w", err)
	}
	for _, f := range []string{sqliteFile, sqliteFile + "-wal", sqliteFile + "-shm", cleanSnapshotName} {
		os.Remove(filepath.Join(dst, f))
	}
	s, err := g8aNewStore(dst, id, g8aOpts{NoSnapshotOnClose: true, ReapThreshold: 1000})
	if err != nil {
		return "", "", nil, err
	}
	// the copy must not talk to the live cluster
	s.ly.(*g8aLayer).SetBlocked(true)
	defer s.ly.Close()
	if err := s.Open(); err != nil {
		return "", "", err, nil
	}
	defer g8aClose(s)
	d, err := g8aDumpLive(s)
	if err != nil {
		return "", "", fmt.Errorf("dump of restored database: %w", err), nil
	}
	ic, err := vsql.IntegrityCheck(s.dbPath)
	if err != nil {
		return d, "", fmt.Errorf("integrity_check of restored database: %w", err), nil
	}
	return d, ic, nil, nil
}

// g8aConfigIndex returns the index of the node's latest configuration entry
// (raft publishes the configuration but not its index: ConfigurationFuture
// .Index() of GetConfiguration and the "latest_configuration_index" stat are
// always 0). It is the newest LogConfiguration entry of the log, or else the
// configuration index recorded in the newest snapshot.
func g8aConfigIndex(s *Store) uint64 {
	if fi, li, err := s.boltStore.Indexes(); err == nil && li != 0 {
		for i := li; i >= fi && i > 0; i-- {
			var lg raft.Log
			if s.boltStore.GetLog(i, &lg) == nil && lg.Type == raft.LogConfiguration {
				return i
			}
		}
	}
	if metas, err := s.snapshotStore.List(); err == nil && len(metas) > 0 {
		return metas[0].ConfigurationIndex
	}
	return 0
}
