package store

// C25, unit "wiring": the Store keeps handing every committed row change to
// the CDC channel, labelled with its log index, across the events that replace
// the database underneath the hooks: a snapshot INSTALLED on the running node
// (FSM.Restore on a live store, as Raft does to a lagging follower), a load
// through the log, a boot, and user snapshots.
//
// Real single-node Store with CDC enabled on a large channel (no cdc.Service:
// the service is covered by the "service" unit). Snapshot install = user
// snapshot, then the newest snapshot is opened from the Store's snapshot store
// and fed to fsmRestore exactly as raft's restoreSnapshot/installSnapshot do
// (no write in between, so the restored state equals the current one).
// Oracle: expected changes per request from an independent model (same SQL on
// a raw-driver database, with rqlite's request semantics for failing
// statements); each must be found in a group carrying the request's raft index.

import (
	"database/sql"
	"fmt"
	"os"
	"path/filepath"
	"sort"
	"strings"
	"testing"

	"github.com/rqlite/rqlite/v10/command/proto"
	"github.com/rqlite/rqlite/v10/internal/verif/vsql"
	"github.com/rqlite/rqlite/v10/internal/verif/vstat"
	"pgregory.net/rapid"
)

type c25wChange struct {
	Index uint64
	Op    string
	RowID int64
}

func c25wRows(db *sql.DB) (map[int64]string, error) {
	rows, err := db.Query("SELECT id, v FROM t")
	if err != nil {
		return nil, err
	}
	defer rows.Close()
	m := map[int64]string{}
	for rows.Next() {
		var id int64
		var v string
		if err := rows.Scan(&id, &v); err != nil {
			return nil, err
		}
		m[id] = v
	}
	return m, rows.Err()
}

func c25wDiff(before, after map[int64]string) []c25wChange {
	ids := map[int64]bool{}
	for id := range before {
		ids[id] = true
	}
	for id := range after {
		ids[id] = true
	}
	var sorted []int64
	for id := range ids {
		sorted = append(sorted, id)
	}
	sort.Slice(sorted, func(i, j int) bool { return sorted[i] < sorted[j] })
	var out []c25wChange
	for _, id := range sorted {
		b, inB := before[id]
		a, inA := after[id]
		switch {
		case inA && !inB:
			out = append(out, c25wChange{Op: "INSERT", RowID: id})
		case inB && !inA:
			out = append(out, c25wChange{Op: "DELETE", RowID: id})
		case a != b:
			out = append(out, c25wChange{Op: "UPDATE", RowID: id})
		}
	}
	return out
}

// c25wApplyReq: model with request semantics (non-tx: failing statement has no
// effect, rest runs; tx: first failure rolls everything back).
func c25wApplyReq(db *sql.DB, stmts []string, tx bool) ([]c25wChange, error) {
	var out []c25wChange
	if tx {
		if _, err := db.Exec("BEGIN"); err != nil {
			return nil, err
		}
	}
	for _, s := range stmts {
		before, err := c25wRows(db)
		if err != nil {
			return nil, err
		}
		if _, err := db.Exec(s); err != nil {
			if tx {
				_, rerr := db.Exec("ROLLBACK")
				return nil, rerr
			}
			continue
		}
		after, err := c25wRows(db)
		if err != nil {
			return nil, err
		}
		out = append(out, c25wDiff(before, after)...)
	}
	if tx {
		if _, err := db.Exec("COMMIT"); err != nil {
			return nil, err
		}
	}
	return out, nil
}

type c25wOp struct {
	Kind  string // req, snapinstall, usersnap, load, boot
	Stmts []string
	Tx    bool
	Rows  int
}

func (o c25wOp) String() string {
	switch o.Kind {
	case "req":
		return fmt.Sprintf("req(tx=%v %s)", o.Tx, strings.Join(o.Stmts, "; "))
	case "load", "boot":
		return fmt.Sprintf("%s(%d rows)", o.Kind, o.Rows)
	}
	return o.Kind
}

func TestVerif_C25_Wiring(t *testing.T) {
	rec := vstat.New(t, "C25", "wiring",
		"real single-node Store with CDC enabled on a channel; 4..14 ops (thorough ..30): Execute requests of 1..3 statements (insert/update/delete/failing insert, tx or not), snapshot install on the running node (user snapshot + fsmRestore of the newest snapshot), user snapshot, load, boot; non-trivial = a request that changes rows follows a snapshot install, load or boot; distinct by op list")
	rapid.Check(t, func(rt *rapid.T) {
		defer g8bRecoverInfra(rec, t)
		nOps := rapid.IntRange(4, vstat.Scale(14, 30)).Draw(rt, "nOps")
		serial := 0
		var ops []c25wOp
		for i := 0; i < nOps; i++ {
			o := c25wOp{Kind: rapid.SampledFrom([]string{"req", "req", "req", "req", "snapinstall", "snapinstall", "usersnap", "load", "boot"}).Draw(rt, "kind")}
			switch o.Kind {
			case "req":
				k := rapid.IntRange(1, 3).Draw(rt, "nStmts")
				for j := 0; j < k; j++ {
					serial++
					switch rapid.IntRange(0, 5).Draw(rt, "stmtKind") {
					case 0, 1, 2:
						o.Stmts = append(o.Stmts, fmt.Sprintf("INSERT INTO t(v) VALUES('a%d')", serial))
					case 3:
						o.Stmts = append(o.Stmts, fmt.Sprintf("UPDATE t SET v='u%d' WHERE id=(SELECT max(id) FROM t)", serial))
					case 4:
						o.Stmts = append(o.Stmts, "DELETE FROM t WHERE id=(SELECT min(id) FROM t)")
					default:
						o.Stmts = append(o.Stmts, fmt.Sprintf("INSERT INTO t(id, v) VALUES((SELECT max(id) FROM t), 'dup%d')", serial))
					}
				}
				o.Tx = rapid.Bool().Draw(rt, "tx")
			case "load", "boot":
				o.Rows = rapid.IntRange(0, 5).Draw(rt, "fileRows")
			}
			ops = append(ops, o)
		}
		// every history ends with a request that must be captured
		serial++
		ops = append(ops, c25wOp{Kind: "req", Stmts: []string{fmt.Sprintf("INSERT INTO t(v) VALUES('last%d')", serial)}})

		dir, err := os.MkdirTemp("", "c25w-")
		if err != nil {
			g8bInfra("tempdir")
		}
		defer os.RemoveAll(dir)
		ch := make(chan *proto.CDCIndexedEventGroup, 10000)
		n, err := g8bOpenSingle("", filepath.Join(dir, "node"), func(s *Store) {
			if err := s.EnableCDC(ch, nil, false); err != nil {
				panic(err)
			}
		})
		if err != nil {
			t.Logf("infrastructure: %v", err)
			g8bInfra("store did not come up")
		}
		defer n.Close()
		s := n.S
		model, err := vsql.OpenMem()
		if err != nil {
			g8bInfra("model")
		}
		defer func() { model.Close() }()
		schema := "CREATE TABLE t(id INTEGER PRIMARY KEY, v TEXT)"
		if _, _, err := g8bExec(s, false, schema); err != nil {
			g8bInfra("schema")
		}
		model.Exec(schema)

		var expected []c25wChange
		var groups []*proto.CDCIndexedEventGroup
		var trace []string
		replaced, nontrivial := false, false
		drain := func() {
			for {
				select {
				case g := <-ch:
					if g != nil {
						groups = append(groups, g)
					}
				default:
					return
				}
			}
		}
		for _, o := range ops {
			trace = append(trace, o.String())
			rec.Label("op:" + o.Kind)
			switch o.Kind {
			case "req":
				_, idx, err := s.Execute(t.Context(), executeRequestFromStrings(o.Stmts, false, o.Tx))
				if err != nil {
					t.Logf("infrastructure: execute: %v", err)
					g8bInfra("execute failed")
				}
				chs, err := c25wApplyReq(model, o.Stmts, o.Tx)
				if err != nil {
					t.Fatalf("harness: model: %v", err)
				}
				for _, c := range chs {
					c.Index = idx
					expected = append(expected, c)
				}
				if replaced && len(chs) > 0 {
					nontrivial = true
				}
				trace[len(trace)-1] += fmt.Sprintf(" @%d", idx)
			case "usersnap":
				s.Snapshot(0)
			case "snapinstall":
				if err := s.Snapshot(0); err != nil {
					rec.Label("snapinstall-skipped-no-new-snapshot")
					continue
				}
				metas, err := s.snapshotStore.List()
				if err != nil || len(metas) == 0 {
					rec.Label("snapinstall-skipped-no-snapshot")
					continue
				}
				_, rc, err := s.snapshotStore.Open(metas[len(metas)-1].ID)
				if err != nil {
					t.Logf("infrastructure: open snapshot: %v", err)
					g8bInfra("snapshot open failed")
				}
				if err := s.fsmRestore(rc); err != nil {
					t.Logf("infrastructure: restore: %v", err)
					g8bInfra("restore failed")
				}
				replaced = true
			case "load", "boot":
				p := filepath.Join(dir, fmt.Sprintf("file-%d.db", len(trace)))
				fdb, err := vsql.Open(p)
				if err != nil {
					t.Fatalf("harness: %v", err)
				}
				stmts := []string{schema}
				for i := 0; i < o.Rows; i++ {
					stmts = append(stmts, fmt.Sprintf("INSERT INTO t(v) VALUES('f%d-%d')", len(trace), i))
				}
				for _, q := range stmts {
					if _, err := fdb.Exec(q); err != nil {
						t.Fatalf("harness: %v", err)
					}
				}
				fdb.Close()
				if o.Kind == "load" {
					if err := s.Load(t.Context(), loadRequestFromFile(p)); err != nil {
						t.Logf("infrastructure: load: %v", err)
						g8bInfra("load failed")
					}
				} else {
					f, err := os.Open(p)
					if err != nil {
						t.Fatalf("harness: %v", err)
					}
					_, err = s.ReadFrom(f)
					f.Close()
					if err != nil {
						t.Logf("infrastructure: boot: %v", err)
						g8bInfra("boot failed")
					}
				}
				os.Remove(p)
				model.Close()
				model, err = vsql.OpenMem()
				if err != nil {
					t.Fatalf("harness: %v", err)
				}
				for _, q := range stmts {
					if _, err := model.Exec(q); err != nil {
						t.Fatalf("harness: %v", err)
					}
				}
				replaced = true
			}
			drain()
		}
		drain()
		canon := ""
		for _, o := range ops {
			canon += o.String() + ";"
		}
		rec.Case(nontrivial, canon)
		rec.LabelN("expected-changes", len(expected))
		rec.Sample(strings.Join(trace, " | "))

		for _, c := range expected {
			found, foundAt := false, uint64(0)
			anywhere := false
			for _, g := range groups {
				for _, e := range g.Events {
					if e.Table != "t" || e.Op.String() != c.Op {
						continue
					}
					if (c.Op == "DELETE" && e.OldRowId == c.RowID) || (c.Op != "DELETE" && e.NewRowId == c.RowID) {
						if g.Index == c.Index {
							found = true
						} else {
							anywhere, foundAt = true, g.Index
						}
					}
				}
			}
			if found {
				continue
			}
			sig, what := "C25/change-not-captured-after-database-replaced", "after a snapshot install / load / boot on a running node row changes are no longer handed to CDC"
			if !replaced {
				sig, what = "C25/streamer-change-missing", "a committed row change is not emitted under its log index"
			}
			if anywhere && foundAt == 0 {
				sig, what = "C25/later-statement-labelled-index-0", "events of the 2nd+ statement of a non-transactional request are delivered with index 0"
			}
			if rec.KnownHit(sig, what) {
				return
			}
			var gs []string
			for _, g := range groups {
				gs = append(gs, fmt.Sprintf("#%d(%d)", g.Index, len(g.Events)))
			}
			rt.Fatalf("%s", rec.Violation(sig, "change %d/%s/t/%d was not handed to CDC under index %d (seen under another index: %v %d)\nhistory:\n  %s\ngroups: %s",
				c.Index, c.Op, c.RowID, c.Index, anywhere, foundAt, strings.Join(trace, "\n  "), strings.Join(gs, " ")))
		}
	})
}
