package store_test

// C01: replicas converge - the same committed log gives the same database on
// every apply path.
//
// A generated SQL program (DDL, INSERT/UPDATE/DELETE/INSERT..SELECT/UPSERT,
// multi-statement and transactional requests, positional parameters, and
// calls of RANDOM(), RANDOMBLOB(n) and the date/time functions at 'now') is
// sent through the real HTTP handlers of a real node (http.Service over a
// real store.Store): /db/execute with a JSON body, /db/execute with
// text/plain, /db/execute?queue&wait, /db/request, and /db/load with SQL
// text. Every endpoint kind writes to its own table (t_json, t_text, t_queue,
// t_req, t_load), and every case uses every endpoint, so a divergence names
// the endpoint by the table that differs.
//
// Apply paths compared (logical dump of the SQLite file, raw driver):
//   live        the leader that served the requests
//   follower    a second real node that was in the cluster while the program ran
//   replay      the same node restarted: no snapshot => the whole log is
//               replayed later; after a snapshot => restart from the snapshot
//   recovery    manual recovery (raft/peers.json) of a copy of the directory
//   joiner      a node that joins afterwards (log replay or snapshot install)
// The serving node (and a live follower) optionally run with CDC enabled, with
// a consumer that keeps up or one that never reads; the other paths have CDC
// off. All dumps must be identical. Excluded exactly as the property says: no
// norwrandom/norwtime/noparse flags, no db_timeout, no CURRENT_*, no DEFAULT
// expressions, no RANDOM() in ORDER BY, no 'localtime'.

import (
	"bytes"
	"encoding/json"
	"fmt"
	"io"
	"net/http"
	"os"
	"path/filepath"
	"strings"
	"testing"
	"time"

	"github.com/rqlite/rqlite/v10/cluster"
	"github.com/rqlite/rqlite/v10/command/proto"
	httpd "github.com/rqlite/rqlite/v10/http"
	"github.com/rqlite/rqlite/v10/internal/verif/vsql"
	"github.com/rqlite/rqlite/v10/internal/verif/vstat"
	"github.com/rqlite/rqlite/v10/proxy"
	"github.com/rqlite/rqlite/v10/store"
	"github.com/rqlite/rqlite/v10/tcp"
	"pgregory.net/rapid"
)

var c01Endpoints = []string{"execute-json", "execute-text", "execute-queue", "request", "load-text"}

type c01Stmt struct {
	SQL    string
	Params []any
}

type c01Req struct {
	Endpoint string
	Level    string // read consistency level given to /db/request ("" = default)
	Tx       bool
	Stmts    []c01Stmt
	NonDet   int

	SelectFirst bool
}

func (r c01Req) String() string {
	var parts []string
	for _, s := range r.Stmts {
		if len(s.Params) > 0 {
			parts = append(parts, fmt.Sprintf("%s %v", s.SQL, s.Params))
		} else {
			parts = append(parts, s.SQL)
		}
	}
	tx := ""
	if r.Tx {
		tx = ",tx"
	}
	if r.Level != "" {
		tx += ",level=" + r.Level
	}
	return fmt.Sprintf("%s%s{%s}", r.Endpoint, tx, strings.Join(parts, " ;; "))
}

var c01Random = []string{"RANDOM()", "random()", "abs(random()) % 1000", "RANDOMBLOB(8)", "hex(randomblob(4))", "random() + 1", "Random()", "randomblob(3)"}
var c01Time = []string{
	"datetime('now')", "date('now')", "time('now')", "julianday('now')",
	"strftime('%Y-%m-%d %H:%M:%f','now')", "strftime('%s','now')", "strftime('%J','now')", "strftime('%f','now')",
	"unixepoch('now')", "datetime('now','+1 day')", "DATETIME('NOW')", "julianday('now') * 86400.0",
	"unixepoch('now','subsec')", "datetime('now','subsec')",
}

// c01Expr returns a value expression; nd tells whether it is one of the
// rewritten non-deterministic calls.
func c01Expr(rt *rapid.T, class string, allowND bool) (string, bool) {
	if allowND && rapid.IntRange(0, 9).Draw(rt, "nd") < 6 {
		pool := c01Random
		switch class {
		case "time":
			pool = c01Time
		case "both":
			if rapid.Bool().Draw(rt, "timeOrRandom") {
				pool = c01Time
			}
		}
		return rapid.SampledFrom(pool).Draw(rt, "call"), true
	}
	switch rapid.IntRange(0, 3).Draw(rt, "lit") {
	case 0:
		return fmt.Sprint(rapid.IntRange(-3, 999).Draw(rt, "int")), false
	case 1:
		return "'" + rapid.StringMatching(`[a-z ]{0,6}`).Draw(rt, "text") + "'", false
	case 2:
		return "x'" + rapid.StringMatching(`([0-9a-f]{2}){0,3}`).Draw(rt, "blob") + "'", false
	default:
		return "NULL", false
	}
}

func c01GenStmt(rt *rapid.T, tbl, class string, allowND, allowParams bool) (c01Stmt, int) {
	nd := 0
	ex := func() string {
		e, isND := c01Expr(rt, class, allowND)
		if isND {
			nd++
		}
		return e
	}
	var st c01Stmt
	// random-class call for the shapes below (the ORDER BY exclusion of the
	// rewriter concerns RANDOM() only)
	rnd := func() string {
		if !allowND {
			return "7"
		}
		nd++
		return rapid.SampledFrom([]string{"random()", "RANDOM()", "abs(random()) % 1000", "hex(randomblob(4))"}).Draw(rt, "rcall")
	}
	switch rapid.IntRange(0, 13).Draw(rt, "stmtKind") {
	case 10:
		// a call the walk reaches after an ORDER BY term: in LIMIT
		nd++
		st.SQL = fmt.Sprintf("INSERT INTO %s(a,b,c) SELECT a, b, %s FROM %s ORDER BY id LIMIT abs(random()) %% 3 + 1", tbl, ex(), tbl)
	case 11:
		// ... after the ORDER BY of a window definition
		st.SQL = fmt.Sprintf("INSERT INTO %s(a,b,c) SELECT row_number() OVER (ORDER BY id), %s, %s FROM %s WHERE id %% 2 = %d", tbl, rnd(), ex(), tbl, rapid.IntRange(0, 1).Draw(rt, "rem"))
	case 12:
		// ... after the ORDER BY ... LIMIT of a FROM sub-select
		st.SQL = fmt.Sprintf("INSERT INTO %s(a,b,c) SELECT s.a, s.id, 'sub' FROM (SELECT a, id FROM %s ORDER BY id DESC LIMIT 4) AS s WHERE %s %% 2 = 0 OR s.id > 0", tbl, tbl, "abs(random())")
		nd++
	case 13:
		// ... and in a later column of an ordered INSERT..SELECT
		st.SQL = fmt.Sprintf("INSERT INTO %s(a,b,c) SELECT id, %s, %s FROM (SELECT id FROM %s ORDER BY id LIMIT 3) AS s", tbl, rnd(), ex(), tbl)
	case 0, 1, 2, 3:
		rows := rapid.IntRange(1, 2).Draw(rt, "rows")
		var vs []string
		for i := 0; i < rows; i++ {
			first := ex()
			if allowParams && rapid.IntRange(0, 2).Draw(rt, "param") == 0 {
				first = "?"
				if rapid.Bool().Draw(rt, "paramInt") {
					st.Params = append(st.Params, rapid.IntRange(0, 99).Draw(rt, "pv"))
				} else {
					st.Params = append(st.Params, rapid.StringMatching(`[a-z]{0,5}`).Draw(rt, "ps"))
				}
			}
			vs = append(vs, fmt.Sprintf("(%s, %s, %s)", first, ex(), ex()))
		}
		st.SQL = "INSERT INTO " + tbl + "(a,b,c) VALUES " + strings.Join(vs, ", ")
	case 4, 5:
		m := rapid.IntRange(1, 4).Draw(rt, "mod")
		st.SQL = fmt.Sprintf("UPDATE %s SET a = %s, b = %s WHERE id %% %d = %d", tbl, ex(), ex(), m, rapid.IntRange(0, m-1).Draw(rt, "rem"))
	case 6:
		st.SQL = fmt.Sprintf("INSERT INTO %s(a,b,c) SELECT a, %s, %s FROM %s WHERE id %% 2 = %d", tbl, ex(), ex(), tbl, rapid.IntRange(0, 1).Draw(rt, "rem"))
	case 7:
		st.SQL = fmt.Sprintf("DELETE FROM %s WHERE id %% 7 = %d", tbl, rapid.IntRange(0, 6).Draw(rt, "rem"))
	case 8:
		st.SQL = fmt.Sprintf("INSERT OR REPLACE INTO %s(id,a,b) VALUES (%d, %s, %s)", tbl, rapid.IntRange(1, 6).Draw(rt, "id"), ex(), ex())
	case 9:
		st.SQL = fmt.Sprintf("INSERT INTO %s(a,b,c) VALUES (%s, %s, %s) ON CONFLICT(id) DO UPDATE SET a = %s", tbl, ex(), ex(), ex(), ex())
	}
	return st, nd
}

var c01Table = map[string]string{"execute-json": "t_json", "execute-text": "t_text", "execute-queue": "t_queue", "request": "t_req", "load-text": "t_load"}

// c01GenProgram: every endpoint kind (in a generated order) sends 1..2
// requests of 1..3 statements against its own table.
func c01GenProgram(rt *rapid.T) (reqs []c01Req) {
	order := rapid.Permutation(c01Endpoints).Draw(rt, "endpointOrder")
	for _, ep := range order {
		nr := rapid.IntRange(1, 2).Draw(rt, "nreq")
		for i := 0; i < nr; i++ {
			r := c01Req{Endpoint: ep}
			allowParams := ep == "execute-json" || ep == "execute-queue" || ep == "request"
			if ep == "execute-json" || ep == "request" {
				r.Tx = rapid.IntRange(0, 2).Draw(rt, "tx") == 0
			}
			if ep == "request" {
				r.Level = rapid.SampledFrom([]string{"", "none", "weak", "linearizable", "strong"}).Draw(rt, "level")
			}
			ns := rapid.IntRange(1, 3).Draw(rt, "nstmt")
			for j := 0; j < ns; j++ {
				class := rapid.SampledFrom([]string{"random", "time", "both"}).Draw(rt, "ndClass")
				st, nd := c01GenStmt(rt, c01Table[ep], class, true, allowParams)
				// a multi-statement text whose FIRST statement is a SELECT and whose
				// later statement is the write with the calls: it must still be
				// recognised as a write and rewritten, on every endpoint and level
				if len(st.Params) == 0 && rapid.IntRange(0, 2).Draw(rt, "selectFirst") == 0 {
					lead := rapid.SampledFrom([]string{"SELECT 1", "SELECT count(*) FROM " + c01Table[ep], "select id FROM " + c01Table[ep] + " WHERE id = 1"}).Draw(rt, "leadingSelect")
					st.SQL = lead + "; " + st.SQL
					r.SelectFirst = true
				}
				r.Stmts = append(r.Stmts, st)
				r.NonDet += nd
			}
			reqs = append(reqs, r)
		}
	}
	return reqs
}

// c01Split cuts a dump into its per-table sections (schema lines under "").
func c01Split(d string) map[string]string {
	out := map[string]string{}
	cur := ""
	for _, l := range strings.Split(d, "\n") {
		if strings.HasPrefix(l, "TABLE ") {
			f := strings.Fields(l)
			cur = f[1]
		}
		out[cur] += l + "\n"
	}
	return out
}

// ------------------------------------------------------------------- node

type c01Node struct {
	str *store.Store
	svc *httpd.Service
	url string
}

func (n *c01Node) closeHTTP() {
	if n.svc != nil {
		n.svc.Close()
		n.svc = nil
	}
}

func c01StartHTTP(str *store.Store) (*c01Node, error) {
	clstrClient := cluster.NewClient(tcp.NewDialer(cluster.MuxClusterHeader, nil), 30*time.Second)
	pxy := proxy.New(str, clstrClient)
	svc := httpd.New("127.0.0.1:0", str, clstrClient, pxy, nil)
	svc.DefaultQueueBatchSz = 4
	svc.DefaultQueueTimeout = 20 * time.Millisecond
	if err := svc.Start(); err != nil {
		return nil, err
	}
	pxy.SetAPIAddr(svc.Addr().String())
	return &c01Node{str: str, svc: svc, url: "http://" + svc.Addr().String()}, nil
}

func c01Body(stmts []c01Stmt) []byte {
	var arr []any
	for _, s := range stmts {
		if len(s.Params) == 0 {
			arr = append(arr, s.SQL)
		} else {
			arr = append(arr, append([]any{s.SQL}, s.Params...))
		}
	}
	b, _ := json.Marshal(arr)
	return b
}

// c01Send sends one request through the HTTP API. It returns the HTTP status,
// the body and whether the response reports a statement/request error.
func c01Send(cl *http.Client, base string, r c01Req) (int, string, error) {
	var url, ctype string
	var body []byte
	texts := func() string {
		var parts []string
		for _, s := range r.Stmts {
			parts = append(parts, s.SQL)
		}
		return strings.Join(parts, ";\n") + ";\n"
	}
	switch r.Endpoint {
	case "execute-json":
		url, ctype, body = base+"/db/execute", "application/json", c01Body(r.Stmts)
		if r.Tx {
			url += "?transaction"
		}
	case "execute-text":
		url, ctype, body = base+"/db/execute", "text/plain", []byte(texts())
	case "execute-queue":
		url, ctype, body = base+"/db/execute?queue&wait&timeout=20s", "application/json", c01Body(r.Stmts)
	case "request":
		url, ctype, body = base+"/db/request", "application/json", c01Body(r.Stmts)
		sep := "?"
		if r.Tx {
			url += "?transaction"
			sep = "&"
		}
		if r.Level != "" {
			url += sep + "level=" + r.Level
		}
	case "load-text":
		url, ctype, body = base+"/db/load", "text/plain", []byte(texts())
	}
	resp, err := cl.Post(url, ctype, bytes.NewReader(body))
	if err != nil {
		return 0, "", err
	}
	defer resp.Body.Close()
	b, _ := io.ReadAll(resp.Body)
	return resp.StatusCode, string(b), nil
}

func c01Dump(str *store.Store) (string, error) {
	return vsql.DumpFile(filepath.Join(str.Path(), "db.sqlite"))
}

func TestVerif_C01_Converge(t *testing.T) {
	rec := vstat.New(t, "C01", "converge",
		"generated SQL programs: every write endpoint (/db/execute JSON, text/plain, ?queue&wait, /db/request, /db/load SQL text; generated order) sends 1-2 requests of 1-3 statements (INSERT multi-row / UPDATE / DELETE / INSERT..SELECT incl. ORDER BY/LIMIT, window and FROM-sub-select shapes with a call after the ORDER BY / OR REPLACE / UPSERT, parameters, tx flag, multi-statement texts) with calls of RANDOM/RANDOMBLOB/date-time-at-now to its own table through the real HTTP handlers; apply paths: live leader, live follower, restart replay (with or without snapshot, optionally >1 s later), peers.json recovery of a copy, late joiner (log replay or snapshot install); non-trivial = >=1 non-deterministic call reached the node and >=3 apply paths were compared; distinct = hash of program + path options")
	rapid.Check(t, func(rt *rapid.T) { c01Case(rt, rec) })
}

func c01Case(rt *rapid.T, rec *vstat.Rec) {
	store.G8aNextCase()
	reqs := c01GenProgram(rt)
	followerLive := rapid.IntRange(0, 2).Draw(rt, "followerLive") == 0
	snapshotBefore := rapid.IntRange(0, 2).Draw(rt, "snapshotBeforeReplay") == 0
	crossSecond := rapid.IntRange(0, 3).Draw(rt, "crossSecond") == 0

	base, err := os.MkdirTemp("", "c01")
	if err != nil {
		rt.Skip("tempdir")
	}
	defer os.RemoveAll(base)
	dirA := filepath.Join(base, "a")
	hb := 300 * time.Millisecond
	a, err := store.G8aNewStore(dirA, "a", store.G8aOpts{NoSnapshotOnClose: true, Heartbeat: hb, ReapThreshold: 1000})
	if err != nil {
		rt.Skip("listen")
	}
	var toClose []*store.Store
	defer func() {
		for _, s := range toClose {
			store.G8aCloseQuiet(s)
		}
	}()
	toClose = append(toClose, a)
	if err := a.Open(); err != nil {
		rec.Label("infra:open")
		return
	}
	if err := a.Bootstrap(store.NewServer(a.ID(), a.Addr(), true)); err != nil {
		rec.Label("infra:bootstrap")
		return
	}
	if err := store.G8aWaitLeaderSelf(a, 30*time.Second); err != nil {
		rec.Label("infra:no-leader")
		return
	}
	// CDC on the node must never change what is applied, whether its consumer
	// keeps up or not (the other apply paths run without CDC).
	stopCDC := make(chan struct{})
	defer close(stopCDC)
	enableCDC := func(s *store.Store, mode string) {
		switch mode {
		case "drained":
			ch := make(chan *proto.CDCIndexedEventGroup, 4)
			go func() {
				for {
					select {
					case <-ch:
					case <-stopCDC:
						return
					}
				}
			}()
			s.EnableCDC(ch, nil, rapid.Bool().Draw(rt, "cdcRowIDsOnly"))
		case "stalled":
			// a consumer that never reads: the channel is full after one event group
			s.EnableCDC(make(chan *proto.CDCIndexedEventGroup, 1), nil, false)
		}
	}
	cdcFollower := "off"
	cdcLeader := rapid.SampledFrom([]string{"off", "off", "drained", "stalled", "stalled"}).Draw(rt, "cdcLeader")
	enableCDC(a, cdcLeader)
	node, err := c01StartHTTP(a)
	if err != nil {
		rec.Label("infra:http")
		return
	}
	defer node.closeHTTP()
	tr := &http.Transport{DisableKeepAlives: true}
	defer tr.CloseIdleConnections()
	cl := &http.Client{Transport: tr, Timeout: 40 * time.Second}

	var hist []string
	fail := func(sig, format string, args ...any) {
		rt.Fatalf("%s", rec.Violation(sig, "%s | program: %s", fmt.Sprintf(format, args...), strings.Join(hist, " || ")))
	}

	// optional live follower
	var b *store.Store
	newB := func(id string) *store.Store {
		s, err := store.G8aNewStore(filepath.Join(base, id), id, store.G8aOpts{NoSnapshotOnClose: true, Heartbeat: hb, ReapThreshold: 1000})
		if err != nil {
			return nil
		}
		toClose = append(toClose, s)
		if err := s.Open(); err != nil {
			return nil
		}
		return s
	}
	if followerLive {
		b = newB("b")
		if b == nil {
			rec.Label("infra:open-b")
			return
		}
		cdcFollower = rapid.SampledFrom([]string{"off", "off", "stalled"}).Draw(rt, "cdcFollower")
		enableCDC(b, cdcFollower)
		if err := a.Join(&proto.JoinRequest{Id: "b", Address: b.Addr(), Voter: rapid.IntRange(0, 2).Draw(rt, "bVoter") == 0}); err != nil {
			rec.Label("inconclusive:join-b")
			return
		}
	}

	// ---- the program
	setup := c01Req{Endpoint: "execute-json"}
	for _, ep := range c01Endpoints {
		setup.Stmts = append(setup.Stmts, c01Stmt{SQL: "CREATE TABLE " + c01Table[ep] + " (id INTEGER PRIMARY KEY, a, b, c)"})
	}
	all := append([]c01Req{setup}, reqs...)
	ndSent, stmtErrors := 0, 0
	for _, r := range all {
		code, body, err := c01Send(cl, node.url, r)
		if err != nil {
			rec.Label("inconclusive:http-error")
			return
		}
		hist = append(hist, r.String())
		if code != 200 {
			// an endpoint refusing a request applied nothing; that is not
			// divergence. (Leadership trouble in the two-node phase.)
			if followerLive {
				rec.Label("inconclusive:http-status")
				return
			}
			fail("C01/request-refused", "HTTP %d for %s: %s", code, r.String(), body)
		}
		if strings.Contains(body, `"error"`) {
			stmtErrors++
		}
		ndSent += r.NonDet
	}
	// ---- optionally a boot (POST /boot with a SQLite image) after the program.
	// Boot bypasses the log and is a single-node operation: with a follower
	// attached it must be refused; if the endpoint reports success anyway, the
	// follower still has to end up with the same database as the leader.
	boot := "none"
	bootOdds := 3 // 1 in 4 on a single node, 1 in 2 with a follower attached
	if followerLive {
		bootOdds = 1
	}
	if rapid.IntRange(0, bootOdds).Draw(rt, "bootAtEnd") == 0 {
		img := filepath.Join(base, "boot.db")
		if db, err := vsql.Open(img); err == nil {
			db.Exec("CREATE TABLE booted (id INTEGER PRIMARY KEY, x)")
			db.Exec(fmt.Sprintf("INSERT INTO booted(x) VALUES (%d), ('b')", rapid.IntRange(0, 99).Draw(rt, "bootVal")))
			db.Close()
		}
		if data, err := os.ReadFile(img); err == nil && len(data) > 0 {
			resp, err := cl.Post(node.url+"/boot", "application/octet-stream", bytes.NewReader(data))
			if err != nil {
				rec.Label("inconclusive:http-error")
				return
			}
			io.Copy(io.Discard, resp.Body)
			resp.Body.Close()
			boot = "refused"
			if resp.StatusCode == 200 {
				boot = "ok"
			}
			hist = append(hist, fmt.Sprintf("boot(followerAttached=%v,%s)", followerLive, boot))
			// a write after the boot, through the log
			after := c01Req{Endpoint: "execute-json", Stmts: []c01Stmt{
				{SQL: "CREATE TABLE IF NOT EXISTS after_boot (id INTEGER PRIMARY KEY, x)"},
				{SQL: "INSERT INTO after_boot(x) VALUES (random())"}}, NonDet: 1}
			if code, _, err := c01Send(cl, node.url, after); err != nil || code != 200 {
				rec.Label("inconclusive:http-status")
				return
			}
			hist = append(hist, after.String())
			ndSent++
		}
	}
	if !store.G8aWaitApplied(a, a, time.Now().Add(30*time.Second)) {
		rec.Label("inconclusive:leader-not-applied")
		return
	}
	live, err := c01Dump(a)
	if err != nil {
		fail("C01/dump-error", "cannot dump the live leader: %v", err)
	}
	paths := 1
	known := "statements arriving as SQL text on /db/load are replicated without rewriting RANDOM()/RANDOMBLOB()/date-time-at-now, so every apply path evaluates them again"
	liveT := c01Split(live)
	divergedEndpoints := map[string]bool{}
	// diverged compares one path with the live leader, table by table; it
	// returns true when the comparison of further paths is pointless.
	diverged := func(path, d string) bool {
		if d == live {
			return false
		}
		if boot == "ok" && followerLive {
			fail("C01/diverged{path=boot-with-attached-node}", "a boot was accepted with another node attached and apply path %q does not hold the same database as the leader: %s", path, store.G8aFirstDiff(d, live))
		}
		dT := c01Split(d)
		attributed := false
		for _, ep := range c01Endpoints {
			tbl := c01Table[ep]
			if dT[tbl] == liveT[tbl] {
				continue
			}
			attributed = true
			divergedEndpoints[ep] = true
			sig := fmt.Sprintf("C01/diverged{endpoint=%s}", ep)
			if cdcLeader == "stalled" || cdcFollower == "stalled" {
				// a node whose CDC consumer does not read is the distinguishing
				// circumstance; name it so that it is not mistaken for an
				// endpoint that fails to rewrite
				sig = fmt.Sprintf("C01/diverged{endpoint=%s,cdc=stalled}", ep)
			}
			if rec.KnownHit(sig, known) {
				continue
			}
			fail(sig, "apply path %q differs from the live leader in table %s (written through %s): %s", path, tbl, ep, store.G8aFirstDiff(dT[tbl], liveT[tbl]))
		}
		if !attributed {
			fail("C01/diverged{endpoint=?}", "apply path %q differs from the live leader outside the endpoint tables: %s", path, store.G8aFirstDiff(d, live))
		}
		return false
	}
	finish := func() {
		nontrivial := ndSent > 0 && paths >= 3
		rec.Case(nontrivial, fmt.Sprintf("%s|f=%v s=%v x=%v cdc=%s", strings.Join(hist, "||"), followerLive, snapshotBefore, crossSecond, cdcLeader))
		for ep := range divergedEndpoints {
			rec.Label("diverged-endpoint:" + ep)
		}
		for _, r := range reqs {
			if r.NonDet > 0 {
				rec.Label("nd-via:" + r.Endpoint)
			}
			if r.SelectFirst && r.NonDet > 0 {
				rec.Label("select-first-text-via:" + r.Endpoint)
			}
			if r.Endpoint == "request" {
				rec.Label("request-level:" + r.Level)
			}
		}
		if ndSent == 0 {
			rec.Label("no-nondeterministic-call")
		}
		if stmtErrors > 0 {
			rec.Label("has-statement-error")
		}
		if followerLive {
			rec.Label("live-follower")
		}
		rec.Label("cdc-on-leader:" + cdcLeader)
		if boot != "none" {
			rec.Label(fmt.Sprintf("boot-at-end:%s(follower=%v)", boot, followerLive))
		}
		if snapshotBefore {
			rec.Label("snapshot-before-replay")
		}
		if crossSecond {
			rec.Label("replay-a-second-later")
		}
		rec.LabelN("paths-compared", paths)
		rec.Sample(strings.Join(hist, " || "))
	}

	// ---- live follower
	if b != nil {
		if !store.G8aWaitApplied(a, b, time.Now().Add(40*time.Second)) {
			rec.Label("inconclusive:follower-did-not-catch-up")
			return
		}
		d, err := c01Dump(b)
		if err != nil {
			fail("C01/dump-error", "cannot dump the follower: %v", err)
		}
		paths++
		if diverged("live-follower", d) {
			finish()
			return
		}
	}

	// ---- stop everything; snapshot first in a third of the cases
	node.closeHTTP()
	if snapshotBefore {
		if err := a.Snapshot(1); err != nil {
			snapshotBefore = false
		}
	}
	if b != nil {
		store.G8aCloseQuiet(b)
	}
	addrA := a.Addr()
	if err := store.G8aClose(a); err != nil {
		fail("C01/close-error", "close failed: %v", err)
	}
	store.G8aCloseLayer(a)
	if crossSecond {
		time.Sleep(1100 * time.Millisecond)
	}

	// ---- recovery of a copy
	dirR := filepath.Join(base, "recovered")
	if err := vsql.CopyDir(dirA, dirR); err != nil {
		rt.Skip("copy")
	}
	r, err := store.G8aNewStore(dirR, "a", store.G8aOpts{NoSnapshotOnClose: true, Heartbeat: hb, ReapThreshold: 1000})
	if err != nil {
		rt.Skip("listen")
	}
	toClose = append(toClose, r)
	peers := []store.G8aPeer{{ID: "a", Address: store.G8aLayerAddr(r)}}
	os.MkdirAll(filepath.Join(dirR, "raft"), 0o755)
	if err := os.WriteFile(filepath.Join(dirR, "raft", "peers.json"), []byte(store.G8aPeersJSON(peers)), 0o644); err != nil {
		rt.Skip("peers")
	}
	if err := r.Open(); err != nil {
		if strings.Contains(err.Error(), "MSRW conflict") {
			rec.Label("inconclusive:recovery-reap-conflict")
		} else {
			fail("C01/recovery-open-failed", "recovery of a copy failed: %v", err)
		}
	} else {
		d, err := c01Dump(r)
		if err != nil {
			fail("C01/dump-error", "cannot dump the recovered copy: %v", err)
		}
		paths++
		if diverged("recovery", d) {
			finish()
			return
		}
	}
	store.G8aCloseQuiet(r)

	// ---- restart of the node itself
	a2, err := store.G8aNewStore(dirA, "a", store.G8aOpts{NoSnapshotOnClose: true, Heartbeat: hb, ReapThreshold: 1000, Addr: addrA})
	if err != nil {
		rec.Label("infra:relisten")
		finish()
		return
	}
	toClose = append(toClose, a2)
	if err := a2.Open(); err != nil {
		fail("C01/restart-open-failed", "restart failed: %v", err)
	}
	// with a live follower in the configuration the restarted node needs it for a quorum
	if b != nil {
		b2, err := store.G8aNewStore(filepath.Join(base, "b"), "b", store.G8aOpts{NoSnapshotOnClose: true, Heartbeat: hb, ReapThreshold: 1000, Addr: store.G8aLayerAddr(b)})
		if err != nil {
			rec.Label("infra:relisten")
			finish()
			return
		}
		toClose = append(toClose, b2)
		if err := b2.Open(); err != nil {
			fail("C01/restart-open-failed", "restart of the follower failed: %v", err)
		}
		b = b2
	}
	leader := func() *store.Store {
		deadline := time.Now().Add(40 * time.Second)
		for time.Now().Before(deadline) {
			for _, s := range []*store.Store{a2, b} {
				if s != nil && s.IsLeader() && store.G8aBarrier(s, 10*time.Second) == nil {
					return s
				}
			}
			time.Sleep(20 * time.Millisecond)
		}
		return nil
	}
	l := leader()
	if l == nil {
		rec.Label("inconclusive:no-leader-after-restart")
		finish()
		return
	}
	for _, s := range []*store.Store{a2, b} {
		if s == nil {
			continue
		}
		if !store.G8aWaitApplied(l, s, time.Now().Add(40*time.Second)) {
			rec.Label("inconclusive:restart-not-applied")
			finish()
			return
		}
		d, err := c01Dump(s)
		if err != nil {
			fail("C01/dump-error", "cannot dump restarted node %s: %v", s.ID(), err)
		}
		paths++
		name := "restart-replay"
		if snapshotBefore && s == a2 {
			name = "restart-from-snapshot"
		}
		if diverged(name+"("+s.ID()+")", d) {
			finish()
			return
		}
	}

	// ---- a late joiner
	c := newB("c")
	if c != nil {
		restoresBefore := store.G8aNumSnapshots(c)
		if err := l.Join(&proto.JoinRequest{Id: "c", Address: c.Addr(), Voter: false}); err != nil {
			rec.Label("inconclusive:join-c")
			finish()
			return
		}
		if !store.G8aWaitApplied(l, c, time.Now().Add(40*time.Second)) {
			rec.Label("inconclusive:joiner-did-not-catch-up")
			finish()
			return
		}
		d, err := c01Dump(c)
		if err != nil {
			fail("C01/dump-error", "cannot dump the joiner: %v", err)
		}
		paths++
		name := "joiner-log-replay"
		if store.G8aNumSnapshots(c) > restoresBefore {
			name = "joiner-snapshot-install"
		}
		rec.Label(name)
		if diverged(name, d) {
			finish()
			return
		}
	}
	finish()
}
