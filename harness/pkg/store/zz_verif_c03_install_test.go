package store

// C03, follower snapshot-install window (white-box on one Store).
//
// hashicorp/raft's installSnapshot writes the incoming snapshot through
// SnapshotStore.Create / Write / Close - which FINALISES it in the snapshot
// store - and only then asks the FSM to Restore from it. Store.fsmRestore
// drains the stream into a scratch file, then removes clean_snapshot, swaps the
// database in and writes a new fingerprint. This unit drives exactly that
// sequence on a running Store B ("the follower"): the stream is the newest
// snapshot of another Store A ("the leader") that holds everything B holds plus
// later writes; index N of the installed snapshot is ahead of everything B has.
// The whole sequence runs under the vos shim; B's data directory is saved at
// every filesystem event (+ torn-file / interrupted-RemoveAll derivations)
// and a fresh Store is restarted on every state.
//
// Oracle: whatever the snapshot store of the crash state says is the newest
// snapshot decides what raft will treat as applied after the restart, so
//   - newest snapshot = the installed one (index N): the database must hold the
//     installed content (A's model at its snapshot point); the OLD content
//     under index N means every write between B's old index and N is lost on
//     this node for good;
//   - otherwise: the database must hold B's own acknowledged content.

import (
	"errors"
	"fmt"
	"io"
	"os"
	"path/filepath"
	"strings"
	"testing"

	"github.com/hashicorp/raft"
	"github.com/rqlite/rqlite/v10/internal/verif/vcrash"
	"github.com/rqlite/rqlite/v10/internal/verif/vsql"
	"github.com/rqlite/rqlite/v10/internal/verif/vstat"
	"github.com/rqlite/rqlite/v10/snapshot"
	"pgregory.net/rapid"
)

const (
	c03KnownInstall     = "C03/install-finalised-before-fingerprint-removed"
	c03KnownInstallWhat = "an installed snapshot is finalised in the snapshot store while clean_snapshot still vouches for the old database file; a crash before fsmRestore removes the fingerprint restarts on the fast path with the old content under the installed snapshot's index"
)

type c03InstallCase struct {
	Shared   []c03Op // writes both nodes have (B snapshots somewhere in here)
	BSnapAt  []int   // positions in Shared after which B takes a snapshot (at least one)
	Extra    []c03Op // writes only A has
	ASnapAt  []int   // positions in Shared+Extra after which A takes a snapshot (the last position always)
	ATrail   uint64
	IndexGap uint64
}

func (c c03InstallCase) canon() string {
	f := func(ops []c03Op) string {
		p := make([]string, len(ops))
		for i, o := range ops {
			p[i] = o.String()
		}
		return strings.Join(p, " ")
	}
	return fmt.Sprintf("shared[%s] bsnap%v extra[%s] asnap%v gap=%d", f(c.Shared), c.BSnapAt, f(c.Extra), c.ASnapAt, c.IndexGap)
}

func c03GenInstall(rt *rapid.T) c03InstallCase {
	var c c03InstallCase
	seq := 0
	for i, n := 0, rapid.IntRange(1, 4).Draw(rt, "nShared"); i < n; i++ {
		c.Shared = append(c.Shared, c03GenWrite(rt, &seq))
	}
	for i, n := 0, rapid.IntRange(1, 3).Draw(rt, "nExtra"); i < n; i++ {
		c.Extra = append(c.Extra, c03GenWrite(rt, &seq))
	}
	// B snapshots at least once; possibly leaves writes behind its last snapshot
	first := rapid.IntRange(0, len(c.Shared)-1).Draw(rt, "bSnapFirst")
	c.BSnapAt = []int{first}
	if first < len(c.Shared)-1 && rapid.Bool().Draw(rt, "bSnapTwice") {
		c.BSnapAt = append(c.BSnapAt, rapid.IntRange(first+1, len(c.Shared)-1).Draw(rt, "bSnapSecond"))
	}
	total := len(c.Shared) + len(c.Extra)
	for i := 0; i < total-1; i++ {
		if rapid.IntRange(0, 2).Draw(rt, "aSnap") == 0 {
			c.ASnapAt = append(c.ASnapAt, i)
		}
	}
	c.ASnapAt = append(c.ASnapAt, total-1)
	c.ATrail = rapid.SampledFrom([]uint64{0, 1}).Draw(rt, "aTrail")
	c.IndexGap = uint64(rapid.IntRange(1, 20).Draw(rt, "gap"))
	return c
}

func c03Contains(xs []int, x int) bool {
	for _, v := range xs {
		if v == x {
			return true
		}
	}
	return false
}

func c03ModelDump(stmtSets ...[]string) (string, error) {
	m, err := vsql.OpenMem()
	if err != nil {
		return "", err
	}
	defer m.Close()
	for _, set := range stmtSets {
		for _, q := range set {
			if _, err := m.Exec(q); err != nil {
				return "", fmt.Errorf("%s: %w", q, err)
			}
		}
	}
	return vsql.DumpDB(m)
}

func TestVerif_C03_Install(t *testing.T) {
	self := os.Getenv("VERIF_SELF")
	if os.Getenv("VERIF_C03_INNER") == "" && self != "" {
		c03Outer(t, "install", c03InstallRule, "C03/install/restart-terminated-process")
		return
	}
	rec := vstat.New(t, "C03", "install", c03InstallRule)
	rapid.Check(t, func(rt *rapid.T) {
		c := c03GenInstall(rt)
		root, err := os.MkdirTemp("", "c03i-")
		if err != nil {
			rt.Skip("no temp dir")
		}
		defer os.RemoveAll(root)
		dirA, dirB := filepath.Join(root, "a"), filepath.Join(root, "b")
		skip := func(label, msg string) {
			rec.Label("inconclusive:" + label)
			rt.Skip(msg)
		}
		var stmtsB, stmtsA []string
		stmtsB = append(stmtsB, c03Schema...)
		stmtsA = append(stmtsA, c03Schema...)

		// node A: everything, snapshots where generated (the last one is what gets shipped)
		a, err := c03Start(dirA, true)
		if err != nil {
			skip("start-a", err.Error())
		}
		defer func() {
			if a != nil {
				a.stop()
			}
		}()
		if err := a.exec(c03Schema); err != nil {
			skip("write-a", err.Error())
		}
		all := append(append([]c03Op{}, c.Shared...), c.Extra...)
		for i, op := range all {
			if err := a.exec(op.Stmts); err != nil {
				skip("write-a", err.Error())
			}
			stmtsA = append(stmtsA, op.Stmts...)
			if c03Contains(c.ASnapAt, i) {
				if err := a.snapshot(c.ATrail); err != nil {
					skip("snapshot-a", err.Error())
				}
			}
		}
		// node B: the shared prefix, its own snapshots (=> fingerprint)
		b, err := c03Start(dirB, true)
		if err != nil {
			skip("start-b", err.Error())
		}
		bStopped := false
		defer func() {
			if !bStopped {
				b.stop()
			}
		}()
		if err := b.exec(c03Schema); err != nil {
			skip("write-b", err.Error())
		}
		for i, op := range c.Shared {
			if err := b.exec(op.Stmts); err != nil {
				skip("write-b", err.Error())
			}
			stmtsB = append(stmtsB, op.Stmts...)
			if c03Contains(c.BSnapAt, i) {
				if err := b.snapshot(0); err != nil {
					skip("snapshot-b", err.Error())
				}
			}
		}
		wantOld, err := c03ModelDump(stmtsB)
		if err != nil {
			skip("model", err.Error())
		}
		wantNew, err := c03ModelDump(stmtsA)
		if err != nil {
			skip("model", err.Error())
		}
		if wantOld == wantNew {
			rec.Label("trivial:same-content")
		}

		// what the leader ships: its newest snapshot
		metas, err := a.s.snapshotStore.List()
		if err != nil || len(metas) == 0 {
			skip("list-a", fmt.Sprintf("%v", err))
		}
		bIdx, bTerm, err := snapshot.LatestIndexTerm(filepath.Join(dirB, snapshotsDirName))
		if err != nil {
			skip("latest-b", err.Error())
		}
		lastB, err := b.s.boltStore.LastIndex()
		if err != nil {
			skip("lastindex-b", err.Error())
		}
		instIdx := max(metas[0].Index, lastB, bIdx) + c.IndexGap
		instTerm := max(metas[0].Term, bTerm)
		cfg := raft.Configuration{Servers: []raft.Server{{Suffrage: raft.Voter, ID: raft.ServerID(c03NodeID), Address: raft.ServerAddress(b.s.Addr())}}}

		// The install, as raft performs it, recorded.
		beforeSig := vcrash.TreeSig(dirB)
		recd := &vcrash.Recorder{Root: dirB, SaveDir: filepath.Join(root, "states"), Torn: true, PartialRemove: true}
		var instErr error
		var sinkClosedAt, restoreStartAt int
		recd.Run(func() {
			_, rc, err := a.s.snapshotStore.Open(metas[0].ID)
			if err != nil {
				instErr = fmt.Errorf("open on leader: %w", err)
				return
			}
			sink, err := b.s.snapshotStore.Create(metas[0].Version, instIdx, instTerm, cfg, 1, nil)
			if err != nil {
				rc.Close()
				instErr = fmt.Errorf("create: %w", err)
				return
			}
			if _, err := io.Copy(sink, rc); err != nil {
				rc.Close()
				sink.Cancel()
				instErr = fmt.Errorf("write: %w", err)
				return
			}
			rc.Close()
			if err := sink.Close(); err != nil {
				instErr = fmt.Errorf("close: %w", err)
				return
			}
			sinkClosedAt = len(recd.Events)
			_, rc2, err := b.s.snapshotStore.Open(sink.ID())
			if err != nil {
				instErr = fmt.Errorf("open installed: %w", err)
				return
			}
			restoreStartAt = len(recd.Events)
			if err := b.s.fsmRestore(rc2); err != nil {
				instErr = fmt.Errorf("fsmRestore: %w", err)
			}
		})
		_ = restoreStartAt
		if recd.Err != nil {
			skip("recorder", recd.Err.Error())
		}
		if instErr != nil {
			skip("install-failed", instErr.Error())
		}
		a.stop()
		a = nil
		b.stop()
		bStopped = true
		rec.Label(fmt.Sprintf("install-events:%d", min(len(recd.Events)/10*10, 60)))
		rec.Sample(map[string]any{"case": c.canon(), "events": len(recd.Events), "sink_closed_at": sinkClosedAt, "trace": recd.Trace()})

		for _, cs := range recd.States {
			nontrivial := vcrash.TreeSig(cs.Dir) != beforeSig
			rec.Case(nontrivial && wantOld != wantNew, c.canon()+"/"+cs.Label)
			where := c03Where(cs.Ev, dirB)
			phase := "during-sink"
			if cs.Ev.Seq > sinkClosedAt {
				phase = "during-fsm-restore"
			}
			rec.Label("phase:" + phase)
			rec.Label("state:" + cs.Kind)
			li, _, lerr := snapshot.LatestIndexTerm(filepath.Join(cs.Dir, snapshotsDirName))
			installed := lerr == nil && li == instIdx
			want, wantName := wantOld, "follower's own content"
			if installed {
				want, wantName = wantNew, "installed snapshot's content"
				rec.Label("store-newest:installed")
			} else {
				rec.Label("store-newest:own")
			}
			if err := vcrash.ReplaceTree(cs.Dir, dirB); err != nil {
				rt.Skip("restore failed")
			}
			c03Current = c.canon() + " :: crash state " + cs.Label + " (" + where + "): " + vcrash.Listing(cs.Dir)
			res := c03Restart(dirB, nil)
			if res.err != nil {
				if errors.Is(res.err, errC03Infra) {
					rec.Label("inconclusive:" + res.stage)
					continue
				}
				sig := fmt.Sprintf("C03/install/restart-%s-failed/%s/%s", res.stage, cs.Kind, where)
				if rec.KnownHit(sig, "follower does not restart after a crash during snapshot install") {
					continue
				}
				rt.Fatalf("%s", rec.Violation(sig, "case {%s}, crash state %s (%s): restart failed at %s: %v; state: %s", c.canon(), cs.Label, phase, res.stage, res.err, vcrash.Listing(cs.Dir)))
			}
			rec.Label("restart=" + res.path)
			if res.dump == want {
				continue
			}
			sig := fmt.Sprintf("C03/install/content-differs/%s/%s", res.path, phase)
			what := "database after a crash during snapshot install matches neither side"
			if installed && res.path == "fast-path" {
				// old content (or, with writes behind the follower's last snapshot whose
				// log entries are now below the installed index, even less) under index N
				sig, what = c03KnownInstall, c03KnownInstallWhat
			}
			if rec.KnownHit(sig, what) {
				continue
			}
			other := "neither the installed nor the own content"
			if res.dump == wantOld {
				other = "the follower's OLD content"
			} else if res.dump == wantNew {
				other = "the installed content"
			}
			rt.Fatalf("%s", rec.Violation(sig, "case {%s}, crash state %s (%s, %s, restart via %s): snapshot store newest index is %d (installed=%v) so the database must hold the %s, but it holds %s; state: %s\n--- want\n%s--- got\n%s",
				c.canon(), cs.Label, phase, where, res.path, li, installed, wantName, other, vcrash.Listing(cs.Dir), c03Short(want), c03Short(res.dump)))
		}
		recd.Cleanup()
	})
}

const c03InstallRule = "one case = (two-node history, crash state); node A (leader role) holds shared + extra write batches and 1-n snapshots, node B (follower role) the shared batches, 1-2 own snapshots (fingerprint) and possibly writes behind its last snapshot; A's newest snapshot is installed into B exactly as raft does (SnapshotStore.Create, stream, Close, then FSM restore = Store.fsmRestore) with an index ahead of everything B has; crash states: B's data directory at every pre/post event of every mutating os call of that sequence plus torn-file / interrupted-RemoveAll derivations; non-trivial = state differs from B before the install and the two contents differ; distinct by case + crash point label"
