package throttler

// C36: write throttling stays within its configured bounds.
//
// Model (from the property text): level in [0, len(delays)-1]; Signal raises it
// by one up to the maximum; Release lowers it by the release rate down to zero;
// Reset sets it to zero; when no Signal/Release arrived for the idle timeout it
// returns to zero. Delay waits for delays[level] (never longer), and returns
// the context's error early when the context ends first.
//
// Time: the idle timer may fire at any moment once idleTimeout has elapsed
// since the last Signal/Release, and its callback runs in a goroutine of its
// own. To keep the model exact without guessing about scheduling, the harness
// never lets the timer fire unobserved: it notes the clock before every
// Signal/Release (t0: the timer cannot be due before t0+idle); when a third of
// the idle timeout has passed it "settles" - makes sure the level is non-zero
// (an extra Signal that is part of the trace), sleeps past the timeout and
// polls until Level()==0 (must-proceed wait, 10 s). Seeing the level change to
// 0 proves that the callback has completely run. If any clock reading outside
// a settle shows that the timeout may already have expired (the process was
// descheduled for tens of ms), the case is discarded and counted: the harness
// lost control of the order, nothing is judged.
// Delay: must return within 10 s when the current delay is a few ms (tables
// mix ms values with 1 h entries, so using a wrong entry hangs or returns at
// once); never earlier than the current delay when it reports completion
// (time.After cannot fire early, and the API documents "blocks for the
// duration corresponding to the current delay factor"); with a 1 h delay it
// must come back with the context's error.

import (
	"context"
	"errors"
	"fmt"
	"os"
	"sort"
	"strings"
	"sync"
	"sync/atomic"
	"testing"
	"time"

	"github.com/rqlite/rqlite/v10/internal/verif/vstat"
	"pgregory.net/rapid"
)

const c36Proceed = 10 * time.Second

func TestVerif_C36_Model(t *testing.T) {
	rec := vstat.New(t, "C36", "model",
		"sequences of 6..36 ops on one Throttler built from a generated delay table (1..7 entries, first 0 (rarely 1-3ms), others 1-6ms or 1h), release rate 0..4, idle timeout off / 1h / 45-60ms: Signal, Release, Reset, idle-wait (sleep past the idle timeout, then level must reach 0 within 10s), Delay with a live context, Delay with a context that times out after 2-5ms, Delay with a context cancelled after 2ms or before the call, Delay with a context that has a 1h deadline (WithTimeout/WithDeadline) and is cancelled explicitly after 2ms; Level and GetDelay are compared with the model after every op; keepalive (two touches 0.55 idle apart, observed 0.55 idle later: the level must survive); non-trivial = the level hit the ceiling or was clamped at the floor by Release, and at least one Delay waited or was cut short by its context; distinct by table+op sequence; cases in which the clock shows that the idle timer may have fired outside a controlled wait are discarded (label discarded:*)")
	rapid.Check(t, func(rt *rapid.T) {
		nDel := rapid.IntRange(1, 7).Draw(rt, "ndelays")
		delays := make([]time.Duration, nDel)
		for i := 1; i < nDel; i++ {
			if rapid.IntRange(0, 2).Draw(rt, "huge") == 0 {
				delays[i] = time.Hour
			} else {
				delays[i] = time.Duration(rapid.IntRange(1, 6).Draw(rt, "ms")) * time.Millisecond
			}
		}
		if rapid.IntRange(0, 9).Draw(rt, "firstNonZero") == 0 {
			delays[0] = time.Duration(rapid.IntRange(1, 3).Draw(rt, "ms0")) * time.Millisecond
		}
		rate := rapid.IntRange(0, 4).Draw(rt, "rate")
		idleKind := rapid.SampledFrom([]string{"off", "long", "short", "short"}).Draw(rt, "idle")
		var idle time.Duration
		switch idleKind {
		case "long":
			idle = time.Hour
		case "short":
			idle = time.Duration(rapid.IntRange(45, 60).Draw(rt, "idleMs")) * time.Millisecond
		}
		th := New(append([]time.Duration{}, delays...), rate, idle)
		defer th.Reset() // stops the idle timer
		effRate := rate
		if effRate < 1 {
			effRate = 1
		}
		max := nDel - 1
		trace := []string{fmt.Sprintf("new(%v,rate=%d,idle=%s)", delays, rate, idleKind)}
		fail := func(sig, f string, a ...any) {
			rt.Fatalf("%s", rec.Violation(sig, f+" :: trace=%s", append(a, strings.Join(trace, " "))...))
		}

		lvl := 0
		var t0 time.Time // clock before the last Signal/Release
		armed := false   // the idle timer is running (short idle only matters)
		timed := idleKind == "short" && max > 0
		discarded := false
		// lost reports (and records) that the idle timeout may have expired.
		lost := func() bool {
			if timed && armed && time.Since(t0) >= idle {
				discarded = true
			}
			return discarded
		}
		signal := func() {
			before := time.Now()
			th.Signal()
			if lost() {
				return
			}
			if lvl < max {
				lvl++
			}
			t0, armed = before, true
		}
		observe := func(where string) {
			l, d := th.Level(), th.GetDelay()
			if lost() {
				return
			}
			if l < 0 || l > max {
				fail("C36/level-out-of-range", "%s: Level()=%d outside [0,%d]", where, l, max)
			}
			if l != lvl {
				fail("C36/level-arithmetic", "%s: Level()=%d, model %d", where, l, lvl)
			}
			if d != delays[lvl] {
				fail("C36/delay-not-table-entry", "%s: GetDelay()=%v but level %d has %v", where, d, lvl, delays[lvl])
			}
		}
		settles := 0
		settle := func(explicit bool) {
			if !timed || !armed {
				return
			}
			if lvl == 0 {
				trace = append(trace, "signal*")
				signal()
				if discarded {
					return
				}
				observe("after signal*")
				if discarded {
					return
				}
			}
			trace = append(trace, "[idle-settle]")
			time.Sleep(time.Until(t0.Add(idle + time.Millisecond)))
			deadline := time.Now().Add(c36Proceed)
			for th.Level() != 0 {
				if time.Now().After(deadline) {
					fail("C36/idle-timeout-no-reset", "level still %d more than %v after the idle timeout (%v) expired without Signal/Release", th.Level(), c36Proceed, idle)
				}
				time.Sleep(300 * time.Microsecond)
			}
			lvl, armed = 0, false
			settles++
		}
		hitCeil, hitFloorClamp, waited, cut, keepalives := 0, 0, 0, 0, 0

		nOps := rapid.IntRange(6, 36).Draw(rt, "nops")
		for step := 0; step < nOps && !discarded; step++ {
			if timed && armed && time.Since(t0) > idle/3 {
				settle(false)
				if discarded {
					break
				}
				observe("after idle-settle")
			}
			kinds := []string{"signal", "signal", "signal", "signal", "release", "release", "reset", "delay", "delay-deadline", "delay-cancel", "delay-dead", "delay-deadline-cancel", "delay-deadline-cancel"}
			if timed {
				kinds = append(kinds, "idle-wait", "keepalive-signal", "keepalive-release")
			}
			k := rapid.SampledFrom(kinds).Draw(rt, "kind")
			trace = append(trace, k)
			switch k {
			case "signal":
				if lvl == max {
					hitCeil++
				}
				signal()
			case "release":
				before := time.Now()
				th.Release()
				if lost() {
					break
				}
				if lvl > 0 && lvl-effRate < 0 {
					hitFloorClamp++
				}
				lvl -= effRate
				if lvl < 0 {
					lvl = 0
				}
				t0, armed = before, true
			case "reset":
				th.Reset()
				if lost() {
					break
				}
				lvl, armed = 0, false
			case "idle-wait":
				settle(true)
			case "keepalive-signal", "keepalive-release":
				// Signal; sleep 0.55 idle; Signal/Release; sleep 0.55 idle: more than the
				// idle timeout after the first but less after the second touch, so the
				// level must not have been reset ("no signal ... within the idle timeout").
				signal()
				if discarded {
					break
				}
				observe("keepalive start")
				time.Sleep(time.Until(t0.Add(idle * 55 / 100)))
				if k == "keepalive-signal" {
					signal()
				} else {
					before := time.Now()
					th.Release()
					if lost() {
						break
					}
					lvl -= effRate
					if lvl < 0 {
						lvl = 0
					}
					t0, armed = before, true
				}
				if discarded {
					break
				}
				time.Sleep(time.Until(t0.Add(idle * 55 / 100)))
				keepalives++
			case "delay", "delay-deadline", "delay-cancel", "delay-dead", "delay-deadline-cancel":
				d := delays[lvl]
				ctx, cancel := context.WithCancel(context.Background())
				var wantCtxErr error
				switch k {
				case "delay-deadline":
					cancel()
					ctx, cancel = context.WithTimeout(context.Background(), time.Duration(rapid.IntRange(2, 5).Draw(rt, "ctxMs"))*time.Millisecond)
					wantCtxErr = context.DeadlineExceeded
				case "delay-cancel":
					wantCtxErr = context.Canceled
					tm := time.AfterFunc(2*time.Millisecond, cancel)
					defer tm.Stop()
				case "delay-dead":
					cancel()
					wantCtxErr = context.Canceled
				case "delay-deadline-cancel":
					// a context that carries a far deadline (WithTimeout or
					// WithDeadline, 1h) and is cancelled explicitly long before it
					cancel()
					if rapid.Bool().Draw(rt, "withDeadline") {
						ctx, cancel = context.WithDeadline(context.Background(), time.Now().Add(time.Hour))
					} else {
						ctx, cancel = context.WithTimeout(context.Background(), time.Hour)
					}
					wantCtxErr = context.Canceled
					tm := time.AfterFunc(2*time.Millisecond, cancel)
					defer tm.Stop()
				default:
					if d >= time.Hour {
						// a live context with an hour of delay would block the case:
						// give it a deadline instead
						trace[len(trace)-1] = "delay-deadline*"
						cancel()
						ctx, cancel = context.WithTimeout(context.Background(), 3*time.Millisecond)
						wantCtxErr = context.DeadlineExceeded
					}
				}
				done := make(chan error, 1)
				start := time.Now()
				go func() { done <- th.Delay(ctx) }()
				var err error
				select {
				case err = <-done:
				case <-time.After(c36Proceed):
					cancel()
					select { // do not hang on a Delay that ignores its context
					case <-done:
					case <-time.After(time.Second):
					}
					if lost() {
						break
					}
					if wantCtxErr != nil {
						fail("C36/delay-ignores-context", "Delay did not return within %v although its context ended (%v); level %d delay %v", c36Proceed, wantCtxErr, lvl, d)
					}
					fail("C36/delay-too-long", "Delay did not return within %v; the current delay is %v (level %d)", c36Proceed, d, lvl)
				}
				elapsed := time.Since(start)
				cancel()
				if lost() {
					break
				}
				if err == nil {
					if d >= time.Hour {
						fail("C36/delay-too-short", "Delay returned nil after %v although the current delay is 1h (level %d)", elapsed, lvl)
					}
					if elapsed < d {
						fail("C36/delay-too-short", "Delay returned nil after %v, the current delay is %v (level %d)", elapsed, d, lvl)
					}
					if d > 0 {
						waited++
					}
				} else {
					if wantCtxErr == nil {
						fail("C36/delay-wrong-error", "Delay with a live context returned %v", err)
					}
					if !errors.Is(err, wantCtxErr) {
						fail("C36/delay-wrong-error", "Delay returned %v, context ended with %v", err, wantCtxErr)
					}
					if d == 0 && k != "delay-dead" {
						fail("C36/delay-wrong-error", "Delay returned %v although the current delay is 0 and the context was alive at the call", err)
					}
					cut++
				}
			}
			if discarded {
				break
			}
			observe("after " + k)
		}
		if discarded {
			rec.Label("discarded:idle-timer-may-have-fired-unobserved")
			return
		}
		rec.Case((hitCeil > 0 || hitFloorClamp > 0) && (waited > 0 || cut > 0), strings.Join(trace, " "))
		if keepalives > 0 {
			rec.Label("keepalive(touch-restarts-idle-timer)")
		}
		rec.Sample(strings.Join(trace, " "))
		rec.Label("idle-" + idleKind)
		if settles > 0 {
			rec.Label("idle-reset-observed")
		}
		if hitCeil > 0 {
			rec.Label("signal-at-ceiling")
		}
		if hitFloorClamp > 0 {
			rec.Label("release-clamped-at-zero")
		}
		if waited > 0 {
			rec.Label("delay-waited")
		}
		if cut > 0 {
			rec.Label("delay-cut-by-context")
		}
		if rate < 1 {
			rec.Label("rate<1")
		}
		if nDel == 1 {
			rec.Label("single-level-table")
		}
	})
}

// Empty delay table / defaults: documented to behave as a single zero level.
func TestVerif_C36_Degenerate(t *testing.T) {
	rec := vstat.New(t, "C36", "degenerate",
		"enumeration: nil and empty delay tables with rates {-1,0,1,5} and idle {0,20ms}; every op sequence of length 3 over Signal/Release/Reset; level must stay 0 and Delay must return nil at once; plus DefaultThrottler table walk (7 levels, rate 3): signal to the ceiling, release to the floor; non-trivial = every case (sequence); distinct by configuration+sequence")
	ops := []string{"S", "R", "X"}
	for _, tbl := range [][]time.Duration{nil, {}} {
		for _, rate := range []int{-1, 0, 1, 5} {
			for _, idle := range []time.Duration{0, 20 * time.Millisecond} {
				for a := 0; a < 3; a++ {
					for b := 0; b < 3; b++ {
						for c := 0; c < 3; c++ {
							seq := ops[a] + ops[b] + ops[c]
							canon := fmt.Sprintf("tbl=%v(nil=%v) rate=%d idle=%v %s", tbl, tbl == nil, rate, idle, seq)
							rec.Case(true, canon)
							th := New(tbl, rate, idle)
							for _, o := range seq {
								switch o {
								case 'S':
									th.Signal()
								case 'R':
									th.Release()
								case 'X':
									th.Reset()
								}
								if th.Level() != 0 || th.GetDelay() != 0 {
									t.Fatalf("%s", rec.Violation("C36/level-out-of-range", "%s: level=%d delay=%v with an empty table", canon, th.Level(), th.GetDelay()))
								}
								if err := th.Delay(context.Background()); err != nil {
									t.Fatalf("%s", rec.Violation("C36/delay-wrong-error", "%s: Delay=%v", canon, err))
								}
							}
							th.Reset()
						}
					}
				}
			}
		}
	}
	// default table
	th := DefaultThrottler()
	want := []time.Duration{0, 100 * time.Millisecond, 200 * time.Millisecond, 500 * time.Millisecond, time.Second, 2 * time.Second, 5 * time.Second}
	lvl := 0
	for i := 0; i < 9; i++ {
		th.Signal()
		if lvl < 6 {
			lvl++
		}
		rec.Case(true, fmt.Sprintf("default signal %d", i))
		if th.Level() != lvl || th.GetDelay() != want[lvl] {
			t.Fatalf("%s", rec.Violation("C36/level-arithmetic", "default throttler after %d signals: level=%d delay=%v want %d/%v", i+1, th.Level(), th.GetDelay(), lvl, want[lvl]))
		}
	}
	for i := 0; i < 4; i++ {
		th.Release()
		lvl -= 3
		if lvl < 0 {
			lvl = 0
		}
		rec.Case(true, fmt.Sprintf("default release %d", i))
		if th.Level() != lvl || th.GetDelay() != want[lvl] {
			t.Fatalf("%s", rec.Violation("C36/level-arithmetic", "default throttler after %d releases: level=%d delay=%v want %d/%v", i+1, th.Level(), th.GetDelay(), lvl, want[lvl]))
		}
	}
	th.Reset()
	rec.SetExhaustive(true)
}

// Free-running: concurrent Signal/Release/Reset/Delay/Level under -race. The
// level must always be inside the range, GetDelay must be a table entry, and a
// quiescent end state must agree with a count-free bound check.
func TestVerif_C36_Stress(t *testing.T) {
	// The unit built with -race runs with the idle timer off or at 1h; the
	// variant with a 2ms idle timer (C36_STRESS_IDLE=short) runs without the
	// race detector: New() stores the timer after time.AfterFunc has already
	// started it, so a constructor that is descheduled for longer than the idle
	// timeout lets the callback read the field concurrently. With 2ms that is
	// reported by the detector now and then; it cannot change the level and is
	// outside the property (noted in notes/g6-prims.md as an observation).
	shortIdle := os.Getenv("C36_STRESS_IDLE") == "short"
	sub := "stress"
	if shortIdle {
		sub = "stress-idle"
	}
	rec := vstat.New(t, "C36", sub,
		"free-running (under -race when the idle timer is off/1h; without -race with a 2ms idle timer): 3-5 goroutines run generated programs of 5..20 steps (Signal, Release, Reset, Level+GetDelay reads, Delay with a 1-3ms context) on one Throttler (2..6 levels of 0-2ms, rate 1..3); every read must be inside [0,max] and GetDelay a table entry; Delay must return nil or the context error within 10s; afterwards, with idle off, a sequential Signal x(max+2) / Release walk must follow the model exactly; non-trivial = at least two goroutines issued mutating ops; distinct by programs")
	rapid.Check(t, func(rt *rapid.T) {
		nDel := rapid.IntRange(2, 6).Draw(rt, "ndelays")
		delays := make([]time.Duration, nDel)
		for i := 1; i < nDel; i++ {
			delays[i] = time.Duration(rapid.IntRange(0, 2000).Draw(rt, "us")) * time.Microsecond
		}
		rate := rapid.IntRange(1, 3).Draw(rt, "rate")
		idle := time.Duration(0)
		if shortIdle {
			idle = 2 * time.Millisecond
		} else if rapid.Bool().Draw(rt, "idle1h") {
			idle = time.Hour
		}
		nG := rapid.IntRange(3, 5).Draw(rt, "goroutines")
		progs := make([][]string, nG)
		mutators := 0
		for g := range progs {
			n := rapid.IntRange(5, 20).Draw(rt, "len")
			m := false
			for i := 0; i < n; i++ {
				k := rapid.SampledFrom([]string{"S", "S", "S", "R", "X", "L", "L", "D"}).Draw(rt, "k")
				if k == "S" || k == "R" || k == "X" {
					m = true
				}
				progs[g] = append(progs[g], k)
			}
			if m {
				mutators++
			}
		}
		canon := fmt.Sprintf("%v rate=%d idle=%v %v", delays, rate, idle, progs)
		th := New(append([]time.Duration{}, delays...), rate, idle)
		inTable := func(d time.Duration) bool {
			for _, x := range delays {
				if x == d {
					return true
				}
			}
			return false
		}
		var bad atomic.Value
		var wg sync.WaitGroup
		for g := 0; g < nG; g++ {
			wg.Add(1)
			go func(g int) {
				defer wg.Done()
				for _, k := range progs[g] {
					switch k {
					case "S":
						th.Signal()
					case "R":
						th.Release()
					case "X":
						th.Reset()
					case "L":
						if l := th.Level(); l < 0 || l >= nDel {
							bad.Store(fmt.Sprintf("C36/level-out-of-range|Level()=%d outside [0,%d]", l, nDel-1))
						}
						if d := th.GetDelay(); !inTable(d) {
							bad.Store(fmt.Sprintf("C36/delay-not-table-entry|GetDelay()=%v not in %v", d, delays))
						}
					case "D":
						ctx, cancel := context.WithTimeout(context.Background(), time.Duration(1+g%3)*time.Millisecond)
						done := make(chan error, 1)
						go func() { done <- th.Delay(ctx) }()
						select {
						case err := <-done:
							if err != nil && !errors.Is(err, context.DeadlineExceeded) {
								bad.Store(fmt.Sprintf("C36/delay-wrong-error|Delay returned %v", err))
							}
						case <-time.After(c36Proceed):
							bad.Store("C36/delay-too-long|Delay with a 1-3ms context and delays <= 2ms did not return within 10s")
							cancel()
							select {
							case <-done:
							case <-time.After(time.Second):
							}
						}
						cancel()
					}
				}
			}(g)
		}
		wg.Wait()
		rec.Case(mutators >= 2, canon)
		rec.Sample(canon)
		rec.Label(fmt.Sprintf("idle-%v", idle))
		if b := bad.Load(); b != nil {
			p := strings.SplitN(b.(string), "|", 2)
			rt.Fatalf("%s", rec.Violation(p[0], "%s; %s", p[1], canon))
		}
		if !shortIdle {
			th.Reset()
			lvl := 0
			for i := 0; i < nDel+1; i++ {
				th.Signal()
				if lvl < nDel-1 {
					lvl++
				}
				if th.Level() != lvl || th.GetDelay() != delays[lvl] {
					rt.Fatalf("%s", rec.Violation("C36/level-arithmetic", "after the concurrent phase and Reset, %d signals give level %d delay %v; want %d %v; %s", i+1, th.Level(), th.GetDelay(), lvl, delays[lvl], canon))
				}
			}
			for lvl > 0 {
				th.Release()
				lvl -= rate
				if lvl < 0 {
					lvl = 0
				}
				if th.Level() != lvl {
					rt.Fatalf("%s", rec.Violation("C36/level-arithmetic", "release walk: level %d want %d; %s", th.Level(), lvl, canon))
				}
			}
		}
		th.Reset()
	})
}

// ---------------------------------------------------------------------------
// Level changes WHILE a request is blocked inside Delay.
//
// "A throttled request waits no longer than the current delay": whatever
// Signal/Release/Reset do while a request waits, the request must be through no
// later than the largest delay that was in force at any time during its call
// (+ slack), and a context that ends first must still cut the wait short.
// This is the one place where the property itself states a time bound, so it
// is judged: bound = maxDelayInForce + max(250ms, 50%). To stay sound on an
// overloaded machine every scenario runs a canary (a plain timer of the initial
// delay started together with the Delay call); when the canary itself wakes up
// more than 60ms late (worst of three) the scenario is discarded and counted, not judged.

type c36MidOp struct {
	AtMs int    // offset from the start of the Delay call
	Kind string // S, R, X
}

type c36MidScenario struct {
	Delays  []time.Duration
	Rate    int
	Signals int // initial Signals (level before the call)
	Ops     []c36MidOp
	CtxMs   int // 0 = live context, else deadline offset
	Shape   string
}

func (s c36MidScenario) String() string {
	return fmt.Sprintf("{%s delays=%v rate=%d signals=%d ctx=%dms ops=%v}", s.Shape, s.Delays, s.Rate, s.Signals, s.CtxMs, s.Ops)
}

type c36MidResult struct {
	sig, msg  string
	discarded bool
	midOps    int  // ops that landed while the request was still waiting
	easedLow  bool // a Release landed mid-wait and left the level non-zero
	cut       bool
}

func c36RunMid(sc c36MidScenario) (res c36MidResult) {
	th := New(append([]time.Duration{}, sc.Delays...), sc.Rate, 0)
	max := len(sc.Delays) - 1
	lvl := 0
	for i := 0; i < sc.Signals; i++ {
		th.Signal()
		if lvl < max {
			lvl++
		}
	}
	d0 := sc.Delays[lvl]
	maxD := d0
	slack := func() time.Duration {
		s := maxD / 2
		if s < 250*time.Millisecond {
			s = 250 * time.Millisecond
		}
		return s
	}
	ctx, cancel := context.WithCancel(context.Background())
	defer cancel()
	if sc.CtxMs > 0 {
		ctx, cancel = context.WithTimeout(context.Background(), time.Duration(sc.CtxMs)*time.Millisecond)
		defer cancel()
	}
	type ret struct {
		err     error
		elapsed time.Duration
	}
	done := make(chan ret, 1)
	canary := make(chan time.Duration, 1)
	start := time.Now()
	go func() {
		// three canaries; the worst lateness counts
		var cw sync.WaitGroup
		var worst atomic.Int64
		for i := 0; i < 3; i++ {
			cw.Add(1)
			go func() {
				defer cw.Done()
				t := time.NewTimer(d0)
				<-t.C
				l := int64(time.Since(start) - d0)
				for {
					w := worst.Load()
					if l <= w || worst.CompareAndSwap(w, l) {
						break
					}
				}
			}()
		}
		cw.Wait()
		canary <- time.Duration(worst.Load())
	}()
	go func() {
		err := th.Delay(ctx)
		done <- ret{err, time.Since(start)}
	}()
	canaryLate := func() bool {
		select {
		case l := <-canary:
			canary <- l
			return l > 60*time.Millisecond
		default:
			return true // has not even fired yet
		}
	}
	// bound on the return time, from the start of the call
	bound := func() time.Duration {
		b := maxD
		if sc.CtxMs > 0 && time.Duration(sc.CtxMs)*time.Millisecond < b {
			b = time.Duration(sc.CtxMs) * time.Millisecond
		}
		return b + slack()
	}
	finish := func(r ret) c36MidResult {
		if r.elapsed > bound() {
			if canaryLate() {
				res.discarded = true
				return res
			}
			res.sig = "C36/delay-exceeds-max-delay-in-force"
			res.msg = fmt.Sprintf("Delay returned %v after %v; the largest delay in force during the call was %v (context %dms); %s", r.err, r.elapsed, maxD, sc.CtxMs, sc)
			return res
		}
		if r.err != nil {
			if sc.CtxMs == 0 || !errors.Is(r.err, context.DeadlineExceeded) {
				res.sig = "C36/delay-wrong-error"
				res.msg = fmt.Sprintf("Delay returned %v; %s", r.err, sc)
				return res
			}
			res.cut = true
		}
		return res
	}
	next := 0
	for {
		var opAt time.Duration = 1 << 62
		if next < len(sc.Ops) {
			opAt = time.Duration(sc.Ops[next].AtMs) * time.Millisecond
		}
		limit := bound()
		wake := opAt
		if limit < wake {
			wake = limit
		}
		tm := time.NewTimer(time.Until(start.Add(wake)))
		select {
		case r := <-done:
			tm.Stop()
			return finish(r)
		case <-tm.C:
		}
		if wake == opAt && opAt <= limit {
			// the op is issued while the request has not been seen to return
			switch sc.Ops[next].Kind {
			case "S":
				th.Signal()
				if lvl < max {
					lvl++
				}
			case "R":
				th.Release()
				lvl -= sc.Rate
				if lvl < 0 {
					lvl = 0
				}
				if lvl > 0 {
					res.easedLow = true
				}
			case "X":
				th.Reset()
				lvl = 0
			}
			if sc.Delays[lvl] > maxD {
				maxD = sc.Delays[lvl]
			}
			res.midOps++
			next++
			continue
		}
		// the bound has passed and the request is still inside Delay
		select {
		case r := <-done:
			return finish(r)
		default:
		}
		late := canaryLate()
		cancel()
		var r ret
		select {
		case r = <-done:
		case <-time.After(c36Proceed):
			res.sig = "C36/delay-ignores-context"
			res.msg = fmt.Sprintf("Delay still blocked %v after its context was cancelled; %s", c36Proceed, sc)
			return res
		}
		if late {
			res.discarded = true
			return res
		}
		res.sig = "C36/delay-exceeds-max-delay-in-force"
		res.msg = fmt.Sprintf("request still waiting in Delay %v after the call started (returned %v only after its context was cancelled); the largest delay in force during the call was %v (context %dms); %s", time.Since(start), r.err, maxD, sc.CtxMs, sc)
		return res
	}
}

func TestVerif_C36_MidWait(t *testing.T) {
	rec := vstat.New(t, "C36", "midwait",
		"4 independent scenarios per case, run concurrently: a Throttler with 2..5 levels of 100..800ms (level 0 = 0), rate 1..3, no idle timer, raised to a generated level; one request blocks in Delay (live context, or a deadline at a generated offset) while the driver issues generated Signal/Release/Reset at generated offsets inside the wait (shapes: one late Release at 50-95% of the delay, Release/Signal oscillation every 30-100ms, 1-6 random ops, late Reset+Signal); the request must return no later than min(largest delay in force during the call, context deadline) + max(250ms,50%); scenarios whose canary timers (3, started with the call) woke up >60ms late are discarded; non-trivial = some scenario had a Release land mid-wait that left the level non-zero; distinct by scenarios")
	rapid.Check(t, func(rt *rapid.T) {
		const k = 4
		scs := make([]c36MidScenario, k)
		for i := range scs {
			n := rapid.IntRange(2, 5).Draw(rt, "levels")
			sc := c36MidScenario{Delays: make([]time.Duration, n), Rate: rapid.IntRange(1, 3).Draw(rt, "rate")}
			for j := 1; j < n; j++ {
				sc.Delays[j] = time.Duration(rapid.IntRange(2, 16).Draw(rt, "d50")) * 50 * time.Millisecond
			}
			sc.Signals = rapid.IntRange(1, n).Draw(rt, "signals")
			lvl := sc.Signals
			if lvl > n-1 {
				lvl = n - 1
			}
			d0 := int(sc.Delays[lvl] / time.Millisecond)
			sc.Shape = rapid.SampledFrom([]string{"late-release", "late-release", "oscillate", "oscillate", "random", "reset-signal"}).Draw(rt, "shape")
			switch sc.Shape {
			case "late-release":
				sc.Rate = 1
				at := d0 * rapid.IntRange(50, 95).Draw(rt, "pct") / 100
				sc.Ops = []c36MidOp{{at, "R"}}
				if rapid.Bool().Draw(rt, "second") {
					sc.Ops = append(sc.Ops, c36MidOp{at + rapid.IntRange(20, 200).Draw(rt, "gap"), "R"})
				}
			case "oscillate":
				sc.Rate = 1
				p := rapid.IntRange(30, 100).Draw(rt, "period")
				for at := p; at < 3*d0+1000; at += p {
					sc.Ops = append(sc.Ops, c36MidOp{at, "R"}, c36MidOp{at + p/2, "S"})
				}
			case "random":
				m := rapid.IntRange(1, 6).Draw(rt, "nops")
				for j := 0; j < m; j++ {
					sc.Ops = append(sc.Ops, c36MidOp{d0 * rapid.IntRange(5, 120).Draw(rt, "pct") / 100, rapid.SampledFrom([]string{"S", "R", "R", "X"}).Draw(rt, "op")})
				}
				sort.SliceStable(sc.Ops, func(a, b int) bool { return sc.Ops[a].AtMs < sc.Ops[b].AtMs })
			case "reset-signal":
				at := d0 * rapid.IntRange(30, 95).Draw(rt, "pct") / 100
				sc.Ops = []c36MidOp{{at, "X"}, {at + rapid.IntRange(0, 30).Draw(rt, "gap"), "S"}, {at + 60, "S"}}
			}
			if rapid.IntRange(0, 3).Draw(rt, "ctx") == 0 {
				sc.CtxMs = d0 * rapid.IntRange(20, 150).Draw(rt, "ctxpct") / 100
				if sc.CtxMs < 1 {
					sc.CtxMs = 1
				}
			}
			scs[i] = sc
		}
		results := make([]c36MidResult, k)
		var wg sync.WaitGroup
		for i := range scs {
			wg.Add(1)
			go func(i int) {
				defer wg.Done()
				results[i] = c36RunMid(scs[i])
			}(i)
		}
		wg.Wait()
		canon := fmt.Sprint(scs)
		nontrivial := false
		for i, r := range results {
			if r.discarded {
				rec.Label("discarded:canary-late")
				continue
			}
			rec.Label("shape-" + scs[i].Shape)
			if r.easedLow {
				nontrivial = true
				rec.Label("release-mid-wait-to-nonzero-level")
			}
			if r.midOps > 0 {
				rec.Label("op-landed-mid-wait")
			}
			if r.cut {
				rec.Label("cut-by-context")
			}
		}
		rec.Case(nontrivial, canon)
		rec.Sample(canon)
		for _, r := range results {
			if r.sig != "" {
				rt.Fatalf("%s", rec.Violation(r.sig, "%s", r.msg))
			}
		}
	})
}
