package store

// C28 (second unit): load-chunk commands through the Store's CommandProcessor.
//
// Real side: chunking.Chunker splits generated SQLite database files (and
// garbage), every chunk is encoded at once into a LOAD_CHUNK log command as a
// sender does, the commands of 1-3 streams are interleaved and applied with
// CommandProcessor.Process to a real SwappableDB; streams end complete or
// with the Abort command after k chunks; a command may be delivered twice.
//
// Oracle: after a complete stream of a valid database the live database
// equals that database (canonical dump by the raw driver); after an aborted or
// invalid stream the live database is unchanged; a duplicated command is
// answered with an error and changes nothing; at the end the dechunk directory
// and the database directory hold no partial data.

import (
	"fmt"
	"io"
	"log"
	"os"
	"path/filepath"
	"sort"
	"strings"
	"testing"

	"github.com/rqlite/rqlite/v10/command"
	"github.com/rqlite/rqlite/v10/command/chunking"
	"github.com/rqlite/rqlite/v10/command/proto"
	sql "github.com/rqlite/rqlite/v10/db"
	"github.com/rqlite/rqlite/v10/internal/verif/vsql"
	"github.com/rqlite/rqlite/v10/internal/verif/vstat"
	"pgregory.net/rapid"
)

type c28Stream struct {
	Kind    string // "db" | "garbage"
	Rows    int
	Tag     int
	Chunk   int64
	Fate    string // "complete" | "abort"
	AbortAt int    // abort after this many chunks (clamped)
	DupAt   int    // deliver this command twice (-1 = never)
	cmds    [][]byte
	isAbort []bool
	isLast  []bool
	dump    string
	nChunks int
}

func c28MakeSource(dir string, s *c28Stream) ([]byte, error) {
	if s.Kind == "garbage" {
		b := make([]byte, 100+s.Rows*37)
		for i := range b {
			b[i] = byte(i*31 + s.Tag)
		}
		return b, nil
	}
	p := filepath.Join(dir, fmt.Sprintf("src-%d.db", s.Tag))
	os.Remove(p)
	db, err := vsql.Open(p)
	if err != nil {
		return nil, err
	}
	if _, err := db.Exec(fmt.Sprintf("CREATE TABLE s%d (id INTEGER PRIMARY KEY, v TEXT, b BLOB)", s.Tag)); err != nil {
		db.Close()
		return nil, err
	}
	for i := 0; i < s.Rows; i++ {
		if _, err := db.Exec(fmt.Sprintf("INSERT INTO s%d(v,b) VALUES(?,?)", s.Tag), fmt.Sprintf("row-%d-%d-%s", s.Tag, i, strings.Repeat("x", i%50)), []byte{byte(i), byte(s.Tag)}); err != nil {
			db.Close()
			return nil, err
		}
	}
	db.Close()
	s.dump, err = vsql.DumpFile(p)
	if err != nil {
		return nil, err
	}
	b, err := os.ReadFile(p)
	os.Remove(p)
	return b, err
}

func c28ListDir(dir string) []string {
	ents, _ := os.ReadDir(dir)
	var out []string
	for _, e := range ents {
		out = append(out, e.Name())
	}
	sort.Strings(out)
	return out
}

func TestVerif_C28_Processor(t *testing.T) {
	rec := vstat.New(t, "C28", "processor",
		"rapid: 1-3 load streams (SQLite files of 0-400 rows, or garbage) chunked with sizes 512..65536, each ending complete or aborted after k chunks, one command possibly delivered twice, commands of the streams interleaved in a generated order and applied by CommandProcessor.Process to a real SwappableDB; non-trivial = at least two streams or an abort after at least one chunk; distinct by stream parameters and interleaving")
	rapid.Check(t, func(rt *rapid.T) {
		defer c28pGuard(rec)
		dir, err := os.MkdirTemp("", "c28proc")
		if err != nil {
			c28pBail("infrastructure: %v", err)
		}
		defer os.RemoveAll(dir)
		dbDir, chunkDir, srcDir := filepath.Join(dir, "db"), filepath.Join(dir, "chunks"), filepath.Join(dir, "src")
		for _, d := range []string{dbDir, chunkDir, srcDir} {
			os.MkdirAll(d, 0o755)
		}

		ns := rapid.IntRange(1, 3).Draw(rt, "nstreams")
		streams := make([]*c28Stream, ns)
		for i := range streams {
			s := &c28Stream{
				Kind:    rapid.SampledFrom([]string{"db", "db", "db", "garbage"}).Draw(rt, "kind"),
				Rows:    rapid.SampledFrom([]int{0, 1, 10, 100, 400}).Draw(rt, "rows"),
				Tag:     i + 1,
				Chunk:   rapid.SampledFrom([]int64{512, 1000, 4096, 8192, 65536}).Draw(rt, "chunk"),
				Fate:    rapid.SampledFrom([]string{"complete", "complete", "abort"}).Draw(rt, "fate"),
				AbortAt: rapid.IntRange(0, 6).Draw(rt, "abortat"),
				DupAt:   rapid.IntRange(-1, 6).Draw(rt, "dupat"),
			}
			if s.Rows > 10 && s.Chunk < 1000 {
				s.Chunk = 1000 // bound the number of commands per case
			}
			src, err := c28MakeSource(srcDir, s)
			if err != nil {
				c28pBail("infrastructure: source: %v", err)
			}
			ck := chunking.NewChunker(strings.NewReader(string(src)), s.Chunk)
			mk := func(lcr *proto.LoadChunkRequest) []byte {
				sub, err := command.MarshalLoadChunkRequest(lcr)
				if err != nil {
					c28pBail("infrastructure: %v", err)
				}
				b, err := command.Marshal(&proto.Command{Type: proto.Command_COMMAND_TYPE_LOAD_CHUNK, SubCommand: sub})
				if err != nil {
					c28pBail("infrastructure: %v", err)
				}
				return b
			}
			for {
				lcr, err := ck.Next()
				if err == io.EOF {
					break
				}
				if err != nil {
					c28pBail("infrastructure: chunker: %v", err)
				}
				if s.Fate == "abort" && s.nChunks >= s.AbortAt {
					break
				}
				s.cmds = append(s.cmds, mk(lcr)) // encoded at once: the chunk object is not retained
				s.isAbort = append(s.isAbort, false)
				s.isLast = append(s.isLast, lcr.IsLast)
				s.nChunks++
			}
			if s.Fate == "abort" {
				s.cmds = append(s.cmds, mk(ck.Abort()))
				s.isAbort = append(s.isAbort, true)
				s.isLast = append(s.isLast, false)
			}
			streams[i] = s
		}

		// live database with known content
		sdb, err := sql.OpenSwappable(filepath.Join(dbDir, "db.sqlite"), nil, false, true, 4)
		if err != nil {
			c28pBail("infrastructure: %v", err)
		}
		defer func() { sdb.Close() }()
		setup := &proto.Request{Statements: []*proto.Statement{
			{Sql: "CREATE TABLE live (id INTEGER PRIMARY KEY, v TEXT)"},
			{Sql: "INSERT INTO live(v) VALUES('before')"},
		}}
		if rs, err := sdb.Execute(setup, false); err != nil || len(rs) != 2 {
			c28pBail("infrastructure: %v", err)
		}
		current, err := vsql.DumpFile(sdb.Path())
		if err != nil {
			c28pBail("infrastructure: %v", err)
		}
		dm, err := chunking.NewDechunkerManager(chunkDir)
		if err != nil {
			c28pBail("infrastructure: %v", err)
		}
		defer dm.Close()
		cp := NewCommandProcessor(log.New(io.Discard, "", 0), dm)

		// interleave
		pos := make([]int, ns)
		remaining := 0
		for _, s := range streams {
			remaining += len(s.cmds)
		}
		var order []string
		canon := ""
		for _, s := range streams {
			canon += fmt.Sprintf("[%s rows=%d chunk=%d %s@%d dup=%d n=%d]", s.Kind, s.Rows, s.Chunk, s.Fate, s.AbortAt, s.DupAt, s.nChunks)
		}
		fail := func(sig, format string, args ...any) {
			rt.Fatalf("%s", rec.Violation(sig, format+" ;; case: %s order=%s", append(args, canon, strings.Join(order, ""))...))
		}
		anyAbortAfterChunk := false
		for remaining > 0 {
			var avail []int
			for i, s := range streams {
				if pos[i] < len(s.cmds) {
					avail = append(avail, i)
				}
			}
			i := avail[rapid.IntRange(0, len(avail)-1).Draw(rt, "pick")]
			s := streams[i]
			k := pos[i]
			pos[i]++
			remaining--
			order = append(order, fmt.Sprintf("%d", i+1))
			deliveries := 1
			if k == s.DupAt && !s.isAbort[k] && !s.isLast[k] {
				deliveries = 2
			}
			for d := 0; d < deliveries; d++ {
				_, _, r := cp.Process(s.cmds[k], sdb)
				resp, ok := r.(*fsmGenericResponse)
				if !ok {
					fail("C28/processor-response", "unexpected response type %T", r)
				}
				after, err := vsql.DumpFile(sdb.Path())
				if err != nil {
					c28pBail("infrastructure: dump: %v", err)
				}
				switch {
				case d == 1:
					if resp.error == nil {
						fail("C28/duplicate-chunk-accepted", "stream %d chunk %d applied twice without error", i+1, k+1)
					}
					if after != current {
						fail("C28/rejected-chunk-had-effect", "database changed by a rejected duplicate")
					}
				case s.isAbort[k]:
					if k > 0 {
						anyAbortAfterChunk = true
					}
					if resp.error != nil {
						fail("C28/abort-error", "abort of stream %d failed: %v", i+1, resp.error)
					}
					if after != current {
						fail("C28/abort-changed-database", "database changed by an aborted stream")
					}
				case s.isLast[k] && s.Kind == "db":
					if resp.error != nil {
						fail("C28/load-failed", "final chunk of valid stream %d failed: %v", i+1, resp.error)
					}
					if after != s.dump {
						fail("C28/loaded-database-differs", "database after loading stream %d differs from the source:\n%s\nwant\n%s", i+1, after, s.dump)
					}
					current = after
				case s.isLast[k]:
					if resp.error == nil {
						fail("C28/garbage-loaded", "final chunk of a non-SQLite stream reported success")
					}
					if after != current {
						fail("C28/garbage-changed-database", "database changed by an invalid stream")
					}
				default:
					if resp.error != nil {
						fail("C28/genuine-chunk-rejected", "stream %d chunk %d rejected: %v", i+1, k+1, resp.error)
					}
					if after != current {
						fail("C28/partial-stream-changed-database", "database changed before the stream was complete")
					}
				}
			}
		}
		rec.Case(ns >= 2 || anyAbortAfterChunk, canon+" "+strings.Join(order, ""))
		rec.Sample(canon)
		for _, s := range streams {
			rec.Label("stream:" + s.Kind + ":" + s.Fate)
		}
		if ns >= 2 {
			rec.Label("interleaved-streams")
		}
		if anyAbortAfterChunk {
			rec.Label("abort-after-chunks")
		}
		// nothing left behind
		if left := c28ListDir(chunkDir); len(left) != 0 {
			fail("C28/partial-data-left-behind", "dechunk directory still holds %v", left)
		}
		for _, n := range c28ListDir(dbDir) {
			if !strings.HasPrefix(n, "db.sqlite") {
				fail("C28/partial-data-left-behind", "database directory holds unexpected file %s", n)
			}
		}
	})
}

// c28pInconclusive is raised for infrastructure trouble inside a case; the
// case is then counted under the label "inconclusive:infrastructure" instead
// of being skipped (rapid gives up when most cases are skipped).
type c28pInconclusive struct{ msg string }

func c28pBail(format string, args ...any) {
	panic(c28pInconclusive{fmt.Sprintf(format, args...)})
}

// c28pGuard is deferred at the top of a case.
func c28pGuard(rec *vstat.Rec) {
	if r := recover(); r != nil {
		if _, ok := r.(c28pInconclusive); ok {
			rec.Label("inconclusive:infrastructure")
			return
		}
		panic(r)
	}
}
