package store

// C33: manual recovery (raft/peers.json) keeps all applied data and starts
// with exactly the configuration in the peers file.
//
// Generated: a history of small / page-heavy write requests, user snapshots,
// threshold snapshots (optional), loads of generated SQLite files; a clean
// shutdown (with or without the snapshot-on-close); a generated peers file
// (self only at the same or a changed address; self + non-voters; self +
// other voters); reopen on the same directory.
//
// Oracle (independent of the code under test):
//   * the dump of the node's SQLite file taken just before the shutdown (which
//     in turn must equal the model database that received the same statements
//     through the raw driver) must equal the dump after recovery;
//   * Nodes() after recovery must be exactly the servers of the peers file;
//   * a recovered node that can lead accepts a write, and a plain restart
//     afterwards still shows model content and the same configuration.

import (
	"context"
	"fmt"
	"os"
	"path/filepath"
	"sort"
	"strings"
	"testing"
	"time"

	"github.com/rqlite/rqlite/v10/command/proto"
	"github.com/rqlite/rqlite/v10/internal/verif/vstat"
	"github.com/rqlite/rqlite/v10/snapshot"
	rlog "github.com/rqlite/rqlite/v10/store/log"
	"pgregory.net/rapid"
)

// c33ClosedState inspects a closed data directory: index of the newest
// snapshot, number of snapshots and last log index.
func c33ClosedState(dir string) (snapIdx uint64, nSnaps int, lastIdx uint64, err error) {
	ss, err := snapshot.NewStore(filepath.Join(dir, snapshotsDirName))
	if err != nil {
		return 0, 0, 0, err
	}
	metas, err := ss.ListAll()
	ss.Close()
	if err != nil {
		return 0, 0, 0, err
	}
	nSnaps = len(metas)
	if nSnaps > 0 {
		snapIdx = metas[0].Index
	}
	lg, err := rlog.New(filepath.Join(dir, raftDBPath), false)
	if err != nil {
		return 0, 0, 0, err
	}
	defer lg.Close()
	_, lastIdx, err = lg.Indexes()
	return snapIdx, nSnaps, lastIdx, err
}

func TestVerif_C33_Recover(t *testing.T) {
	rec := vstat.New(t, "C33", "recover",
		"rapid histories (t.Repeat) of small/page-heavy writes, non-mutating log entries (strong reads, noops, rejected loads, failing statements; in half of the histories as the last entries), user snapshots, optional threshold snapshots and file loads on a real single-node Store, clean shutdown with/without snapshot-on-close, then recovery with a generated peers.json (self same/changed address, +non-voters, +voters); non-trivial = the closed node had >=1 snapshot and >=1 applied write/load; distinct = hash of the whole history, flags and peers shape")
	rapid.Check(t, func(rt *rapid.T) { c33Case(rt, rec) })
}

func c33Case(rt *rapid.T, rec *vstat.Rec) {
	g8aNextCase()
	base, err := os.MkdirTemp("", "c33")
	if err != nil {
		rt.Skip("tempdir")
	}
	defer os.RemoveAll(base)
	dir := filepath.Join(base, "node")
	const id = "n1"

	noSnapOnClose := rapid.Bool().Draw(rt, "noSnapshotOnClose")
	opts := g8aOpts{NoSnapshotOnClose: noSnapOnClose}
	threshold := rapid.IntRange(0, 3).Draw(rt, "thresholdMode") == 0
	if threshold {
		opts.SnapshotThreshold = uint64(rapid.IntRange(2, 6).Draw(rt, "threshold"))
		opts.SnapshotInterval = 60 * time.Millisecond
	}
	s, err := g8aNewStore(dir, id, opts)
	if err != nil {
		rt.Skip("listen")
	}
	closed := false
	defer func() {
		if !closed {
			g8aCloseQuiet(s)
		}
	}()
	if err := g8aOpenSingle(s, true); err != nil {
		rec.Label("infra:open-failed")
		return
	}
	model, err := g8aNewModel(base)
	if err != nil {
		return
	}
	defer model.Close()

	var hist []string
	nWrites, nLoads, nSnapOK := 0, 0, 0
	fail := func(sig, format string, args ...any) {
		msg := fmt.Sprintf(format, args...)
		rt.Fatalf("%s", rec.Violation(sig, "%s | history: %s", msg, strings.Join(hist, " ; ")))
	}

	// log entries that do not change the database: a strong read (goes through
	// the log as a QUERY command), a NOOP, a rejected load, a request whose
	// only statement fails
	nNonMut := 0
	nonMutating := func(rt *rapid.T) {
		kind := rapid.SampledFrom([]string{"strong-read", "noop", "invalid-load", "failing-write"}).Draw(rt, "nonMutating")
		switch kind {
		case "strong-read":
			qr := queryRequestFromString("SELECT count(*) FROM sqlite_master", false, false, false)
			qr.Level = proto.ConsistencyLevel_STRONG
			if _, _, _, err := s.Query(context.Background(), qr); err != nil {
				fail("C33/query-error", "strong read failed: %v", err)
			}
		case "noop":
			af, err := s.Noop("c33")
			if err != nil || af.Error() != nil {
				fail("C33/noop-error", "noop failed: %v", err)
			}
		case "invalid-load":
			if err := s.Load(context.Background(), &proto.LoadRequest{Data: []byte("SQLite format 3\x00 and then garbage, not a database")}); err == nil {
				fail("C33/invalid-load-accepted", "load of garbage returned no error")
			}
		case "failing-write":
			g8aExec(s, []string{"INSERT INTO no_such_table VALUES (1)"})
		}
		nNonMut++
		hist = append(hist, "NONMUT("+kind+")")
	}
	rt.Repeat(map[string]func(*rapid.T){
		"write-small": func(rt *rapid.T) {
			b := g8aSmallBatch(rt)
			if err := g8aExec(s, b); err != nil {
				fail("C33/execute-error", "execute failed: %v", err)
			}
			model.Exec(b)
			nWrites++
			hist = append(hist, "W"+g8aShort(b))
		},
		"write-big": func(rt *rapid.T) {
			b := g8aBigBatch(rt)
			if err := g8aExec(s, b); err != nil {
				fail("C33/execute-error", "execute failed: %v", err)
			}
			model.Exec(b)
			nWrites++
			hist = append(hist, "B"+g8aShort(b))
		},
		"snapshot": func(rt *rapid.T) {
			err := s.Snapshot(0)
			if err == nil {
				nSnapOK++
				hist = append(hist, "SNAP")
			} else {
				hist = append(hist, "SNAP(err)")
			}
		},
		"load": func(rt *rapid.T) {
			spec := g8aGenLoadSpec(rt)
			p := filepath.Join(base, "load.db")
			if err := g8aBuildDBFile(spec, p); err != nil {
				rt.Skip("build load file")
			}
			if err := g8aLoadFile(s, p); err != nil {
				fail("C33/load-error", "load of a valid database failed: %v (%s)", err, spec)
			}
			if err := model.ReplaceWithFile(p); err != nil {
				rt.Skip("model replace")
			}
			nLoads++
			hist = append(hist, "LOAD"+spec.String())
		},
		"non-mutating-entry": func(rt *rapid.T) { nonMutating(rt) },
		"pause": func(rt *rapid.T) {
			if threshold {
				time.Sleep(time.Duration(rapid.IntRange(20, 150).Draw(rt, "ms")) * time.Millisecond)
				hist = append(hist, "PAUSE")
			}
		},
	})

	// in half of the histories the last entries before the shutdown do not
	// change the database
	lastNonMut := false
	if rapid.Bool().Draw(rt, "trailingNonMutating") {
		for i := rapid.IntRange(1, 2).Draw(rt, "nTrailing"); i > 0; i-- {
			nonMutating(rt)
		}
		lastNonMut = true
	}

	// ---- shutdown
	if err := g8aBarrier(s, 20*time.Second); err != nil {
		rec.Label("infra:barrier")
		return
	}
	pre, err := g8aDumpLive(s)
	if err != nil {
		fail("C33/live-dump-error", "cannot dump live database: %v", err)
	}
	want, err := model.Dump()
	if err != nil {
		return
	}
	if pre != want {
		fail("C33/live-differs-from-model", "live database differs from model before shutdown: %s", g8aFirstDiff(pre, want))
	}
	oldAddr := s.Addr()
	if err := g8aClose(s); err != nil {
		fail("C33/close-error", "clean close failed: %v", err)
	}
	s.ly.Close()
	closed = true
	snapIdx, nSnaps, lastIdx, err := c33ClosedState(dir)
	if err != nil {
		rec.Label("infra:closed-state")
		return
	}
	afterSnap := nSnaps > 0 && lastIdx > snapIdx

	// ---- peers file
	kind := rapid.SampledFrom([]string{"self-same", "self-changed", "self+nonvoters", "self+voters"}).Draw(rt, "peers")
	addr := ""
	if kind == "self-same" {
		addr = oldAddr
	}
	s2, err := g8aNewStore(dir, id, g8aOpts{NoSnapshotOnClose: rapid.Bool().Draw(rt, "noSnapshotOnClose2"), Addr: addr})
	if err != nil && addr != "" {
		kind = "self-changed"
		s2, err = g8aNewStore(dir, id, g8aOpts{NoSnapshotOnClose: true})
	}
	if err != nil {
		rt.Skip("listen")
	}
	defer g8aCloseQuiet(s2)
	peers := []g8aPeer{{ID: id, Address: s2.ly.Addr().String()}}
	canLead := true
	if kind == "self+nonvoters" || kind == "self+voters" {
		n := rapid.IntRange(1, 2).Draw(rt, "others")
		for i := 0; i < n; i++ {
			oaddr, release := g8aReserveAddr()
			defer release()
			peers = append(peers, g8aPeer{ID: fmt.Sprintf("other%d", i+1), Address: oaddr, NonVoter: kind == "self+nonvoters"})
		}
		canLead = kind == "self+nonvoters"
		if rapid.Bool().Draw(rt, "selfLast") {
			peers[0], peers[len(peers)-1] = peers[len(peers)-1], peers[0]
		}
	}
	var exp []string
	for _, p := range peers {
		suf := "voter"
		if p.NonVoter {
			suf = "non_voter"
		}
		exp = append(exp, fmt.Sprintf("%s@%s/%s", p.ID, p.Address, suf))
	}
	sort.Strings(exp)
	expNodes := strings.Join(exp, ",")
	hist = append(hist, fmt.Sprintf("CLOSE(noSnapOnClose=%v snaps=%d snapIdx=%d lastIdx=%d) RECOVER(%s)", noSnapOnClose, nSnaps, snapIdx, lastIdx, kind))

	nontrivial := nSnaps > 0 && nWrites+nLoads > 0
	rec.Case(nontrivial, strings.Join(hist, ";"))
	rec.Label("peers:" + kind)
	rec.Label(fmt.Sprintf("noSnapshotOnClose:%v", noSnapOnClose))
	if afterSnap {
		rec.Label("log-entries-after-last-snapshot")
	}
	if nSnaps == 0 {
		rec.Label("no-snapshot-at-all")
	}
	if nLoads > 0 {
		rec.Label("has-load")
	}
	if lastNonMut {
		rec.Label("last-log-entries-non-mutating")
	}
	if nNonMut > 0 {
		rec.Label("has-non-mutating-entry")
	}
	if threshold {
		rec.Label("threshold-snapshots")
	}
	if nSnapOK > 0 {
		rec.Label("user-snapshot")
	}
	rec.Sample(strings.Join(hist, " ; "))

	if err := os.MkdirAll(filepath.Join(dir, "raft"), 0o755); err != nil {
		rt.Skip("mkdir")
	}
	if err := os.WriteFile(filepath.Join(dir, "raft", "peers.json"), []byte(g8aPeersJSON(peers)), 0o644); err != nil {
		rt.Skip("write peers")
	}

	// ---- recovery
	dataSig := func() string {
		if afterSnap && noSnapOnClose {
			return "C33/entries-after-last-snapshot-lost"
		}
		return "C33/recovered-data-differs"
	}
	if err := s2.Open(); err != nil {
		// Two faces of the same race between the reaper (woken by the recovery
		// snapshot once >= 4 snapshots exist) and raft's start-up: List fails
		// with "MSRW conflict", or List succeeds and the listed snapshot is
		// consolidated away before raft opens it ("failed to load any existing
		// snapshots"). The second face is only attributed to the race when the
		// reaper must have been woken (>= 3 snapshots before the recovery); the
		// retried start below still has to produce the right data.
		reapRace := strings.Contains(err.Error(), "MSRW conflict") ||
			(nSnaps >= 3 && strings.Contains(err.Error(), "failed to load any existing snapshots"))
		if !reapRace {
			fail("C33/recovery-open-failed", "Open with peers.json failed: %v", err)
		}
		// the snapshot written by the recovery wakes the snapshot store's
		// reaper, which then holds the store's write lock while raft lists
		// the snapshots during start-up
		rec.Label(fmt.Sprintf("open-failed-reap-conflict(snaps=%d)", nSnaps))
		if !rec.KnownHit("C33/recovery-open-failed-reap-conflict", "Open after recovery fails with 'MSRW conflict owner: reap' when the recovery snapshot triggers the background reaper (>=3 snapshots present)") {
			fail("C33/recovery-open-failed-reap-conflict", "Open with peers.json failed: %v", err)
		}
		// Known finding: the recovery itself is done (peers.json consumed).
		// Release what the failed Open left behind and start the node again,
		// as an operator would; the oracle then applies to that start.
		addrR := s2.ly.Addr().String()
		if s2.db != nil {
			s2.db.Close()
		}
		if s2.boltStore != nil {
			s2.boltStore.Close()
		}
		if s2.snapshotStore != nil {
			s2.snapshotStore.Close()
		}
		if s2.raftTn != nil {
			s2.raftTn.Close()
		}
		s2.ly.Close()
		var s2b *Store
		for try := 0; try < 50 && s2b == nil; try++ {
			cand, lerr := g8aNewStore(dir, id, g8aOpts{NoSnapshotOnClose: true, Addr: addrR})
			if lerr != nil {
				rec.Label("infra:relisten")
				return
			}
			oerr := cand.Open()
			if oerr == nil {
				s2b = cand
				break
			}
			// a further conflict with the still-running reaper: same finding
			if cand.db != nil {
				cand.db.Close()
			}
			if cand.boltStore != nil {
				cand.boltStore.Close()
			}
			if cand.snapshotStore != nil {
				cand.snapshotStore.Close()
			}
			if cand.raftTn != nil {
				cand.raftTn.Close()
			}
			cand.ly.Close()
			if !strings.Contains(oerr.Error(), "MSRW conflict") {
				fail("C33/restart-after-failed-recovery-open-failed", "start after the failed Open failed: %v", oerr)
			}
			time.Sleep(20 * time.Millisecond)
		}
		if s2b == nil {
			rec.Label("inconclusive:reaper-conflict-persisted")
			return
		}
		s2 = s2b
		defer g8aCloseQuiet(s2b)
		hist = append(hist, "OPEN-RETRIED-AFTER-REAP-CONFLICT")
	}
	got, err := g8aNodesString(s2)
	if err != nil {
		fail("C33/nodes-error", "Nodes() after recovery: %v", err)
	}
	if got != expNodes {
		fail("C33/configuration-differs", "configuration after recovery %q, peers file %q", got, expNodes)
	}
	if canLead {
		if err := g8aWaitLeaderSelf(s2, 30*time.Second); err != nil {
			rec.Label("inconclusive:no-leader-after-recovery")
			return
		}
		if got, _ := g8aNodesString(s2); got != expNodes {
			fail("C33/configuration-differs", "configuration after recovery+election %q, peers file %q", got, expNodes)
		}
	}
	post, err := g8aDumpLive(s2)
	if err != nil {
		fail(dataSig(), "cannot dump recovered database: %v", err)
	}
	if post != pre {
		sig := dataSig()
		what := fmt.Sprintf("recovered database differs from the one before shutdown: %s; before {%s} after {%s}", g8aFirstDiff(post, pre), g8aSummary(pre), g8aSummary(post))
		if rec.KnownHit(sig, "manual recovery loses log entries applied after the last snapshot when the node was closed without a final snapshot") {
			return
		}
		fail(sig, "%s", what)
	}
	if !canLead {
		return
	}

	// ---- recovered node works and survives a plain restart
	b := g8aSmallBatch(rt)
	if err := g8aExec(s2, b); err != nil {
		fail("C33/write-after-recovery-failed", "write on recovered leader failed: %v", err)
	}
	model.Exec(b)
	hist = append(hist, "W"+g8aShort(b), "RESTART")
	want, _ = model.Dump()
	addr2 := s2.Addr()
	if err := g8aClose(s2); err != nil {
		fail("C33/close-error", "close of recovered node failed: %v", err)
	}
	s2.ly.Close()
	s3, err := g8aNewStore(dir, id, g8aOpts{NoSnapshotOnClose: true, Addr: addr2})
	if err != nil {
		rec.Label("infra:relisten")
		return
	}
	defer g8aCloseQuiet(s3)
	if err := s3.Open(); err != nil {
		fail("C33/restart-after-recovery-failed", "restart of recovered node failed: %v", err)
	}
	if err := g8aWaitLeaderSelf(s3, 30*time.Second); err != nil {
		rec.Label("inconclusive:no-leader-after-restart")
		return
	}
	if got, _ := g8aNodesString(s3); got != expNodes {
		fail("C33/configuration-differs-after-restart", "configuration after restart %q, peers file %q", got, expNodes)
	}
	d3, err := g8aDumpLive(s3)
	if err != nil || d3 != want {
		fail("C33/data-differs-after-restart", "database after restart of the recovered node differs from model: %v %s", err, g8aFirstDiff(d3, want))
	}
	rec.Label("restart-after-recovery-checked")
}
