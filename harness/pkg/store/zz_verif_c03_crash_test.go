package store

// C03: acknowledged writes survive crashes and restarts (single node).
//
// Generator: histories of up to 12 operations on a single-node Store: write
// batches (non-idempotent statements: AUTOINCREMENT inserts, counter
// increments, so a re-applied log entry is visible), user snapshots (first
// full, then incremental, optionally truncating the log), FULL_NEEDED marks,
// reaps, clean close/reopen (with and without snapshot-on-close) and
// crash-restarts at idle. The FINAL operation (snapshot, reap or close) runs
// under the vos filesystem shim: the whole data directory (SQLite files, raft
// log, snapshot store, fingerprint) is saved at every filesystem event (copy-
// state: exactly what a killed process leaves on disk, completed writes kept)
// plus torn-file / interrupted-RemoveAll derivations. Every saved state is
// restored into the ORIGINAL directory and a fresh Store is opened on it; for a
// sample of them the restart itself is recorded and crashed again (restore and
// fingerprint paths).
//
// Oracle: the restart succeeds and, once the node leads and has applied its
// log, the logical dump (raw driver) of its database equals the dump of a
// model database (plain SQLite, in memory) that received exactly the
// acknowledged statements. The operation in flight at the crash is a
// snapshot/reap/close, i.e. never changes the expected content. Both restart
// paths are labelled (fingerprint fast path / restore from snapshot store /
// log only).

import (
	"context"
	"database/sql"
	"errors"
	"fmt"
	"io"
	"log"
	"net"
	"os"
	"os/exec"
	"path/filepath"
	"strings"
	"sync"
	"testing"
	"time"

	"github.com/rqlite/rqlite/v10/command/proto"
	"github.com/rqlite/rqlite/v10/internal/verif/vcrash"
	"github.com/rqlite/rqlite/v10/internal/verif/vos"
	"github.com/rqlite/rqlite/v10/internal/verif/vsql"
	"github.com/rqlite/rqlite/v10/internal/verif/vstat"
	"github.com/rqlite/rqlite/v10/snapshot"
	"pgregory.net/rapid"
)

const (
	c03KnownPlanEntry   = "C03/lost-entry/reap-plan-not-durable"
	c03KnownPlanWhat    = "REAP_PLAN is renamed into place without syncing its directory before the plan's destructive operations start; a power loss that loses the entry leaves a half-reaped store without a plan and the node cannot start"
	c03KnownFingerprint = "C03/fingerprint-before-snapshot-finalised"
	c03KnownWhat        = "clean_snapshot fingerprint is published before the snapshot directory is finalised; a crash in between restarts on the fast path with the older snapshot index and re-applies log entries"
)

type c03Layer struct{ ln net.Listener }

func (m *c03Layer) Dial(addr string, timeout time.Duration) (net.Conn, error) {
	return net.DialTimeout("tcp", addr, timeout)
}
func (m *c03Layer) Accept() (net.Conn, error) { return m.ln.Accept() }
func (m *c03Layer) Close() error              { return m.ln.Close() }
func (m *c03Layer) Addr() net.Addr            { return m.ln.Addr() }

type c03Op struct {
	Kind        string   // W write | S snapshot | F mark full-needed | R reap | C close+reopen | K crash at idle + restart
	Stmts       []string // W
	Trailing    uint64   // S: trailing logs (0 = default, keep everything)
	SnapOnClose bool     // C
}

func (o c03Op) String() string {
	switch o.Kind {
	case "W":
		return fmt.Sprintf("W%d", len(o.Stmts))
	case "S":
		return fmt.Sprintf("S(trail=%d)", o.Trailing)
	case "C":
		return fmt.Sprintf("C(snap=%v)", o.SnapOnClose)
	}
	return o.Kind
}

type c03History struct {
	Ops        []c03Op
	Final      c03Op
	NestStride int
	NestOff    int
}

func (h c03History) canon() string {
	parts := make([]string, len(h.Ops))
	for i, o := range h.Ops {
		parts[i] = o.String()
	}
	return strings.Join(parts, " ") + " | final " + h.Final.String()
}

var c03Schema = []string{"CREATE TABLE t (id INTEGER PRIMARY KEY AUTOINCREMENT, v TEXT)", "CREATE TABLE c (k TEXT PRIMARY KEY, n INT)", "INSERT INTO c VALUES('a', 0), ('b', 0)"}

func c03GenWrite(rt *rapid.T, seq *int) c03Op {
	n := rapid.IntRange(1, 3).Draw(rt, "nstmt")
	op := c03Op{Kind: "W"}
	for i := 0; i < n; i++ {
		*seq++
		switch rapid.IntRange(0, 5).Draw(rt, "kind") {
		case 0, 1, 2:
			l := rapid.SampledFrom([]int{1, 30, 800, 6000}).Draw(rt, "len")
			op.Stmts = append(op.Stmts, fmt.Sprintf("INSERT INTO t(v) VALUES('w%d-%s')", *seq, strings.Repeat("z", l)))
		case 3:
			op.Stmts = append(op.Stmts, fmt.Sprintf("UPDATE c SET n = n + 1 WHERE k = '%s'", rapid.SampledFrom([]string{"a", "b"}).Draw(rt, "ctr")))
		case 4:
			op.Stmts = append(op.Stmts, "UPDATE t SET v = v || '+' WHERE id = (SELECT max(id) FROM t)")
		case 5:
			op.Stmts = append(op.Stmts, "DELETE FROM t WHERE id = (SELECT min(id) FROM t) AND (SELECT count(*) FROM t) > 3")
		}
	}
	return op
}

func c03GenHistory(rt *rapid.T) c03History {
	var h c03History
	seq := 0
	n := rapid.IntRange(2, 11).Draw(rt, "nops")
	h.Ops = append(h.Ops, c03GenWrite(rt, &seq)) // at least one acknowledged write first
	for i := 1; i < n; i++ {
		switch rapid.SampledFrom([]string{"W", "W", "W", "W", "S", "S", "S", "F", "R", "C", "K"}).Draw(rt, "op") {
		case "W":
			h.Ops = append(h.Ops, c03GenWrite(rt, &seq))
		case "S":
			h.Ops = append(h.Ops, c03Op{Kind: "S", Trailing: rapid.SampledFrom([]uint64{0, 0, 1, 3}).Draw(rt, "trailing")})
		case "F":
			h.Ops = append(h.Ops, c03Op{Kind: "F"})
		case "R":
			h.Ops = append(h.Ops, c03Op{Kind: "R"})
		case "C":
			h.Ops = append(h.Ops, c03Op{Kind: "C", SnapOnClose: rapid.Bool().Draw(rt, "snapOnClose")})
		case "K":
			h.Ops = append(h.Ops, c03Op{Kind: "K"})
		}
	}
	// The final operation must have work to do: a write since the last
	// snapshot for S and C, at least two snapshots in the store for R.
	lastKind := h.Ops[len(h.Ops)-1].Kind
	switch rapid.SampledFrom([]string{"S", "S", "S", "R", "R", "C", "C"}).Draw(rt, "final") {
	case "S":
		if lastKind != "W" {
			h.Ops = append(h.Ops, c03GenWrite(rt, &seq))
		}
		h.Final = c03Op{Kind: "S", Trailing: rapid.SampledFrom([]uint64{0, 0, 1}).Draw(rt, "ftrailing")}
	case "R":
		nSnap := 0
		for i, o := range h.Ops {
			if o.Kind == "S" && i > 0 && h.Ops[i-1].Kind == "W" {
				nSnap++
			}
			if o.Kind == "R" {
				nSnap = min(nSnap, 1)
			}
		}
		for ; nSnap < 2+rapid.IntRange(0, 1).Draw(rt, "extraSnaps"); nSnap++ {
			h.Ops = append(h.Ops, c03GenWrite(rt, &seq), c03Op{Kind: "S"})
		}
		if rapid.Bool().Draw(rt, "writeBeforeReap") {
			h.Ops = append(h.Ops, c03GenWrite(rt, &seq))
		}
		h.Final = c03Op{Kind: "R"}
	case "C":
		if lastKind != "W" {
			h.Ops = append(h.Ops, c03GenWrite(rt, &seq))
		}
		h.Final = c03Op{Kind: "C", SnapOnClose: true}
	}
	if vstat.Thorough() {
		h.NestStride = rapid.IntRange(2, 4).Draw(rt, "nestStride")
	} else {
		h.NestStride = rapid.IntRange(10, 16).Draw(rt, "nestStride")
	}
	h.NestOff = rapid.IntRange(0, h.NestStride-1).Draw(rt, "nestOff")
	return h
}

// c03Node is one running Store instance on a data directory.
type c03Node struct {
	s  *Store
	ly *c03Layer
}

var errC03Infra = errors.New("infrastructure")

const c03NodeID = "node1"

// c03Start opens a Store on dir and waits until it leads and has applied its
// log. Errors wrapping errC03Infra are harness trouble, all others come from
// rqlite.
func c03Start(dir string, bootstrap bool) (*c03Node, error) {
	ln, err := net.Listen("tcp", "127.0.0.1:0")
	if err != nil {
		return nil, fmt.Errorf("%w: listen: %v", errC03Infra, err)
	}
	ly := &c03Layer{ln}
	s := New(&Config{DBConf: NewDBConfig(), Dir: dir, ID: c03NodeID, Logger: log.New(io.Discard, "", 0)}, ly)
	s.HeartbeatTimeout = 30 * time.Millisecond
	s.ElectionTimeout = 30 * time.Millisecond
	s.LeaderLeaseTimeout = 30 * time.Millisecond
	s.CommitTimeout = 5 * time.Millisecond
	s.RaftLogLevel = "OFF"
	s.SnapshotReapThreshold = 1 << 20 // reaping only when the history says so
	s.NoSnapshotOnClose = true
	if err := s.Open(); err != nil {
		ly.Close()
		return nil, fmt.Errorf("open: %w", err)
	}
	n := &c03Node{s: s, ly: ly}
	if bootstrap {
		if err := s.Bootstrap(NewServer(s.ID(), s.Addr(), true)); err != nil {
			n.stop()
			return nil, fmt.Errorf("%w: bootstrap: %v", errC03Infra, err)
		}
	}
	if _, err := s.WaitForLeader(30 * time.Second); err != nil {
		n.stop()
		return nil, fmt.Errorf("%w: no leader within 30s: %v", errC03Infra, err)
	}
	// everything in the log is applied once a barrier has gone through
	var berr error
	for i := 0; i < 3; i++ {
		if berr = s.Barrier(); berr == nil {
			break
		}
		time.Sleep(100 * time.Millisecond)
	}
	if berr != nil {
		n.stop()
		return nil, fmt.Errorf("%w: barrier: %v", errC03Infra, berr)
	}
	return n, nil
}

func (n *c03Node) stop() error {
	err := n.s.Close(true)
	n.ly.Close()
	return err
}

func (n *c03Node) path() string {
	switch {
	case n.s.numSnapshotsSkipped.Load() > 0:
		return "fast-path"
	case n.s.numSnapshotsStart.Load() > 0:
		return "restore"
	}
	return "log-only"
}

func (n *c03Node) exec(stmts []string) error {
	ss := make([]*proto.Statement, len(stmts))
	for i, q := range stmts {
		ss[i] = &proto.Statement{Sql: q}
	}
	res, _, err := n.s.Execute(context.Background(), &proto.ExecuteRequest{Request: &proto.Request{Statements: ss}})
	if err != nil {
		return err
	}
	for _, r := range res {
		if e := r.GetError(); e != "" {
			return errors.New(e)
		}
	}
	return nil
}

func (n *c03Node) snapshot(trailing uint64) error {
	err := n.s.Snapshot(trailing)
	if err == ErrNothingNewToSnapshot || err == ErrNoWALToSnapshot || (err != nil && strings.Contains(err.Error(), "nothing new to snapshot")) {
		return nil
	}
	return err
}

type c03Run struct {
	rec     *vstat.Rec
	rt      *rapid.T
	root    string
	dir     string
	model   *sql.DB
	h       c03History
	acked   int
	stmts   []string // every acknowledged statement, in order
	history string
}

func (r *c03Run) wantDump() string {
	d, err := vsql.DumpDB(r.model)
	if err != nil {
		r.rt.Skip("model dump: " + err.Error())
	}
	return d
}

// c03Restarted is what a restart on a crash state gave.
type c03Restarted struct {
	dump, path string
	stage      string
	err        error
}

// c03Restart performs what a node start does on the data directory and
// returns the database content once the node leads. record, when non-nil,
// wraps the start-up (for nested crashes).
func c03Restart(dir string, record func(fn func())) c03Restarted {
	var out c03Restarted
	var node *c03Node
	c03Mark()
	start := func() {
		// Store.Open would terminate the whole process (log.Fatal in the
		// snapshot store) on a checksum mismatch; run the identical open +
		// verify of the snapshot store first so that it is reported instead.
		if st, err := snapshot.NewStore(filepath.Join(dir, snapshotsDirName)); err != nil {
			out.stage, out.err = "snapshot-store-open", err
			return
		} else {
			verr := st.Verify()
			st.Close()
			if verr != nil {
				out.stage, out.err = "snapshot-store-verify", verr
				return
			}
		}
		var err error
		node, err = c03Start(dir, false)
		if err != nil {
			out.stage, out.err = "start", err
		}
	}
	if record != nil {
		record(start)
	} else {
		start()
	}
	if out.err != nil {
		return out
	}
	out.path = node.path()
	if err := node.stop(); err != nil {
		out.stage, out.err = "close-after-restart", fmt.Errorf("%w: %v", errC03Infra, err)
		return out
	}
	d, err := vsql.DumpFile(filepath.Join(dir, sqliteFile))
	if err != nil {
		out.stage, out.err = "dump", err
		return out
	}
	out.dump = d
	return out
}

// c03Where names the step of the snapshot/reap/close/restart an event belongs to.
func c03Where(ev vos.Event, dir string) string {
	rel := func(i int) string {
		if i >= len(ev.Paths) {
			return ""
		}
		r, err := filepath.Rel(dir, ev.Paths[i])
		if err != nil {
			return ev.Paths[i]
		}
		return r
	}
	p0, p1 := rel(0), rel(1)
	top := strings.Split(p0, string(filepath.Separator))[0]
	switch {
	case strings.HasPrefix(p0, cleanSnapshotName):
		if ev.Op == "Rename" {
			return "fingerprint-publish"
		}
		if ev.Op == "Remove" && p0 == cleanSnapshotName {
			return "fingerprint-remove"
		}
		return "fingerprint-write"
	case top == walStagingDirName && ev.Op == "Rename":
		return "staging-move"
	case top == walStagingDirName:
		return "staging-" + ev.Op
	case top == snapshotsDirName && ev.Op == "Rename" && strings.HasSuffix(p0, ".tmp") && !strings.Contains(strings.TrimPrefix(p0, snapshotsDirName+"/"), "/"):
		return "snapshot-finalise"
	case top == snapshotsDirName && strings.Contains(p0, "REAP_PLAN"):
		return "reap-plan"
	case top == snapshotsDirName && strings.Contains(p1, "-wal"):
		return "reap-checkpoint"
	case top == snapshotsDirName:
		return "snapshot-store-" + ev.Op
	case strings.HasPrefix(p0, sqliteFile):
		return "db-files-" + ev.Op
	case strings.Contains(p0, "rqlite-restore") || strings.Contains(p0, "restore-wal"):
		return "restore-scratch-" + ev.Op
	}
	return "other-" + ev.Op
}

// c03Sig classifies a wrong-content failure.
func c03Sig(stateDir, path string) string {
	// The known defect: the fast path is taken although the database file is
	// newer than the newest FINALISED snapshot: the fingerprint is already
	// published while the snapshot directory being written is still *.tmp.
	if path == "fast-path" {
		if _, err := os.Stat(filepath.Join(stateDir, cleanSnapshotName)); err == nil {
			if ents, err := os.ReadDir(filepath.Join(stateDir, snapshotsDirName)); err == nil {
				for _, e := range ents {
					if e.IsDir() && strings.HasSuffix(e.Name(), ".tmp") {
						return c03KnownFingerprint
					}
				}
			}
		}
	}
	return "C03/content-differs/" + path
}

// judge applies the oracle; it returns false when the case ended in an open
// known finding or was inconclusive (nothing is explored behind such a state).
func (r *c03Run) judge(res c03Restarted, label, kind, where, stateDir string, nested bool) bool {
	lvl := "first"
	if nested {
		lvl = "nested"
	}
	r.rec.Label(lvl + ":" + kind)
	r.rec.Label(lvl + ":where=" + where)
	if res.err != nil {
		if errors.Is(res.err, errC03Infra) {
			r.rec.Label("inconclusive:" + res.stage)
			r.rt.Logf("inconclusive restart at %s (%s): %v", label, res.stage, res.err)
			return false
		}
		sig := fmt.Sprintf("C03/restart-%s-failed/%s/%s", res.stage, kind, where)
		what := "node does not restart after a crash"
		if strings.HasPrefix(kind, "lost-") {
			if _, err := os.Stat(filepath.Join(stateDir, snapshotsDirName, "REAP_PLAN.tmp")); err == nil {
				sig, what = c03KnownPlanEntry, c03KnownPlanWhat
			}
		}
		if r.rec.KnownHit(sig, what) {
			return false
		}
		r.rt.Fatalf("%s", r.rec.Violation(sig, "history {%s}, crash state %s: restart failed at %s: %v; state: %s", r.history, label, res.stage, res.err, vcrash.Listing(stateDir)))
	}
	r.rec.Label(lvl + ":restart=" + res.path)
	want := r.wantDump()
	if res.dump != want {
		sig := c03Sig(stateDir, res.path)
		if r.rec.KnownHit(sig, c03KnownWhat) {
			return false
		}
		r.rt.Fatalf("%s", r.rec.Violation(sig, "history {%s}, crash state %s (%s, restart via %s): database after restart differs from the %d acknowledged statements; state: %s\n--- want\n%s--- got\n%s",
			r.history, label, where, res.path, r.acked, vcrash.Listing(stateDir), c03Short(want), c03Short(res.dump)))
	}
	return true
}

var c03AfterStmts = []string{"INSERT INTO t(v) VALUES('after-the-crash')", "UPDATE c SET n = n + 1 WHERE k = 'a'"}

// aftermath: the node recovered from the crash state in dir must keep working.
// One more write is acknowledged, a snapshot is taken, the node is closed and
// restarted once through the restore path (fingerprint removed with
// Store.ForceSnapshotRestore) and once more as it is; both times the database
// must be the model plus that write. This is C03 for the history continued
// after the crash (catches recovery that leaves stale staging/snapshot files).
func (r *c03Run) aftermath(label, where, stateDir string) {
	fail := func(stage string, err error) {
		if errors.Is(err, errC03Infra) {
			r.rec.Label("inconclusive:aftermath-" + stage)
			return
		}
		sig := fmt.Sprintf("C03/aftermath-%s-failed/%s", stage, where)
		if r.rec.KnownHit(sig, "node recovered from a crash does not keep working") {
			return
		}
		r.rt.Fatalf("%s", r.rec.Violation(sig, "history {%s}, crash state %s, then write+snapshot+restart: %s failed: %v; crash state: %s", r.history, label, stage, err, vcrash.Listing(stateDir)))
	}
	// Write + snapshot run in a child process: rqlite terminates the process
	// (log.Fatal) when finalising an incremental snapshot fails, which must be
	// reported as a failure of the recovered node, not take the check down.
	killed, exit, out, err := vcrash.RunChild("TestVerif_C03_AfterChild", r.dir)
	if err != nil {
		r.rec.Label("inconclusive:aftermath-child")
		return
	}
	if killed || exit != 0 {
		tail := string(out)
		if i := strings.Index(tail, "AFTERMATH-ERROR"); i >= 0 {
			tail = tail[i:]
		}
		if len(tail) > 1200 {
			tail = tail[len(tail)-1200:]
		}
		if strings.Contains(tail, "AFTERMATH-INFRA") {
			r.rec.Label("inconclusive:aftermath-child-infra")
			return
		}
		stage := "process-exit"
		if strings.Contains(tail, "AFTERMATH-ERROR") {
			stage = "write-or-snapshot"
		}
		fail(stage, fmt.Errorf("child exit %d (killed=%v): %s", exit, killed, strings.TrimSpace(tail)))
		return
	}
	node := &c03Node{s: New(&Config{DBConf: NewDBConfig(), Dir: r.dir, ID: c03NodeID, Logger: log.New(io.Discard, "", 0)}, nil)}
	m, err := vsql.OpenMem()
	if err != nil {
		return
	}
	defer m.Close()
	for _, q := range append(append([]string{}, r.stmts...), c03AfterStmts...) {
		if _, err := m.Exec(q); err != nil {
			return
		}
	}
	want, err := vsql.DumpDB(m)
	if err != nil {
		return
	}
	for _, mode := range []string{"forced-restore", "plain"} {
		if mode == "forced-restore" {
			if err := node.s.ForceSnapshotRestore(); err != nil {
				return
			}
		}
		c03Current = r.history + " :: crash state " + label + ", aftermath restart " + mode
		res := c03Restart(r.dir, nil)
		if res.err != nil {
			fail("restart-"+mode+"-"+res.stage, res.err)
			return
		}
		r.rec.Label("aftermath:restart=" + res.path)
		if res.dump != want {
			sig := fmt.Sprintf("C03/aftermath-content-differs/%s/%s", mode, where)
			if r.rec.KnownHit(sig, "write acknowledged after crash recovery is wrong after the next restart") {
				return
			}
			r.rt.Fatalf("%s", r.rec.Violation(sig, "history {%s}, crash state %s, then write+snapshot+close+restart (%s, via %s): database differs from acknowledged statements; crash state: %s\n--- want\n%s--- got\n%s",
				r.history, label, mode, res.path, vcrash.Listing(stateDir), c03Short(want), c03Short(res.dump)))
		}
	}
}

// TestVerif_C03_AfterChild is the child side of aftermath: start on the
// directory, one acknowledged write, a snapshot, clean close.
func TestVerif_C03_AfterChild(t *testing.T) {
	dir, ok := vcrash.IsChild()
	if !ok {
		t.Skip("helper for TestVerif_C03_Crash")
	}
	node, err := c03Start(dir, false)
	if err != nil {
		if errors.Is(err, errC03Infra) {
			t.Fatalf("AFTERMATH-INFRA start: %v", err)
		}
		t.Fatalf("AFTERMATH-ERROR start: %v", err)
	}
	if err := node.exec(c03AfterStmts); err != nil {
		t.Fatalf("AFTERMATH-ERROR write: %v", err)
	}
	if err := node.snapshot(0); err != nil {
		t.Fatalf("AFTERMATH-ERROR snapshot: %v", err)
	}
	if err := node.stop(); err != nil {
		t.Fatalf("AFTERMATH-INFRA close: %v", err)
	}
}

func c03Short(s string) string {
	var out []string
	for _, l := range strings.Split(s, "\n") {
		if len(l) > 90 {
			l = l[:90] + fmt.Sprintf("...(%d)", len(l))
		}
		out = append(out, l)
	}
	if len(out) > 60 {
		out = append(out[:60], "...")
	}
	return strings.Join(out, "\n") + "\n"
}

// c03Current describes the restart in progress; it is written to the marker
// file so that the outer process can name the crash state if rqlite
// terminates the process (log.Fatal) during that restart.
var c03Current string

func c03Mark() {
	if p := os.Getenv("VERIF_C03_MARKER"); p != "" {
		os.WriteFile(p, []byte(c03Current), 0o644)
	}
}

const c03CrashRule = "one case = (history, crash state); histories of 2-11 ops (write batches of non-idempotent statements, full/incremental snapshots with/without log truncation, FULL_NEEDED marks, reaps, clean close/reopen, crash-restarts at idle) ending in a snapshot, reap or close; crash states: the whole data directory at every pre/post event of every mutating os call of the final operation, torn-file / interrupted-RemoveAll derivations, crash at idle after the history, and (nested, sampled) every event of the restart itself; non-trivial = at least one acknowledged write and the crash lies inside the final operation (state differs from the state before it); distinct by history + crash point label"

// TestVerif_C03_Crash runs the enumeration in an inner process: rqlite ends the
// process in several start-up failure paths (log.Fatal), and a node that kills
// itself while restarting from a crash state must be reported as a failed
// restart, not take the check down as "inconclusive".
func TestVerif_C03_Crash(t *testing.T) {
	if os.Getenv("VERIF_C03_INNER") != "" || os.Getenv("VERIF_SELF") == "" {
		c03CrashInner(t)
		return
	}
	c03Outer(t, "crash", c03CrashRule, "C03/restart-terminated-process")
}

// c03Outer re-executes the running test in an inner process and turns an
// abnormal exit of that process (no rapid verdict) into a violation naming the
// restart that was in progress (marker file written by c03Mark).
func c03Outer(t *testing.T, sub, rule, sig string) {
	self := os.Getenv("VERIF_SELF")
	marker := filepath.Join(os.TempDir(), fmt.Sprintf("c03-marker-%s-%d", sub, os.Getpid()))
	defer os.Remove(marker)
	cmd := exec.Command(self, os.Args[1:]...)
	cmd.Env = append(os.Environ(), "VERIF_C03_INNER=1", "VERIF_C03_MARKER="+marker)
	tail := &c03Tail{max: 6000}
	cmd.Stdout = io.MultiWriter(os.Stdout, tail)
	cmd.Stderr = io.MultiWriter(os.Stderr, tail)
	err := cmd.Run()
	if err == nil {
		return
	}
	out := tail.String()
	if strings.Contains(out, "VERIF-VIOLATION") || strings.Contains(out, "[rapid] failed") || strings.Contains(out, "[rapid] panic") || strings.Contains(out, "test timed out") {
		t.Fatalf("inner process failed: %v", err)
	}
	state, _ := os.ReadFile(marker)
	if len(state) == 0 {
		t.Fatalf("inner process exited (%v) before any restart was attempted", err)
	}
	rec := vstat.New(t, "C03", sub, rule)
	rec.Case(true, string(state))
	if len(out) > 1500 {
		out = out[len(out)-1500:]
	}
	if rec.KnownHit(sig, "rqlite terminates the process while restarting from a crash state") {
		return
	}
	t.Fatalf("%s", rec.Violation(sig, "%s: the restarting node terminated the process (%v); last output: %s", state, err, strings.TrimSpace(out)))
}

type c03Tail struct {
	mu  sync.Mutex
	buf []byte
	max int
}

func (w *c03Tail) Write(p []byte) (int, error) {
	w.mu.Lock()
	defer w.mu.Unlock()
	w.buf = append(w.buf, p...)
	if len(w.buf) > 2*w.max {
		w.buf = append([]byte{}, w.buf[len(w.buf)-w.max:]...)
	}
	return len(p), nil
}

func (w *c03Tail) String() string {
	w.mu.Lock()
	defer w.mu.Unlock()
	return string(w.buf)
}

func c03CrashInner(t *testing.T) {
	rec := vstat.New(t, "C03", "crash", c03CrashRule)
	rapid.Check(t, func(rt *rapid.T) {
		h := c03GenHistory(rt)
		root, err := os.MkdirTemp("", "c03-")
		if err != nil {
			rt.Skip("no temp dir")
		}
		defer os.RemoveAll(root)
		dir := filepath.Join(root, "data")
		model, err := vsql.OpenMem()
		if err != nil {
			rt.Skip("model: " + err.Error())
		}
		defer model.Close()
		r := &c03Run{rec: rec, rt: rt, root: root, dir: dir, model: model, h: h, history: h.canon()}
		node, err := c03Start(dir, true)
		if err != nil {
			rec.Label("inconclusive:first-start")
			rt.Skip("first start: " + err.Error())
		}
		stopped := false
		defer func() {
			if !stopped {
				node.stop()
			}
		}()
		apply := func(stmts []string) {
			if err := node.exec(stmts); err != nil {
				rec.Label("inconclusive:write-failed")
				rt.Skip("write failed: " + err.Error())
			}
			for _, q := range stmts {
				if _, err := model.Exec(q); err != nil {
					rt.Skip("model exec: " + err.Error())
				}
			}
			r.acked += len(stmts)
			r.stmts = append(r.stmts, stmts...)
		}
		apply(c03Schema)

		restartIdle := func(tag string) {
			// crash at idle: what is on disk now is what a killed process leaves
			saved := filepath.Join(root, "idle-"+tag)
			if err := vcrash.CopyTree(dir, saved); err != nil {
				rt.Skip("copy failed")
			}
			node.stop()
			stopped = true
			if err := vcrash.ReplaceTree(saved, dir); err != nil {
				rt.Skip("restore failed")
			}
			rec.Case(true, r.history+"/idle-"+tag)
			c03Current = r.history + " :: crash at idle " + tag
			res := c03Restart(dir, nil)
			r.judge(res, "idle-"+tag, "idle", "idle", saved, false)
			os.RemoveAll(saved)
		}
		reopen := func() {
			n2, err := c03Start(dir, false)
			if err != nil {
				if errors.Is(err, errC03Infra) {
					rec.Label("inconclusive:reopen")
					rt.Skip("reopen: " + err.Error())
				}
				rt.Fatalf("%s", rec.Violation("C03/clean-reopen-failed", "history {%s}: reopen failed: %v", r.history, err))
			}
			node, stopped = n2, false
		}

		for i, op := range h.Ops {
			switch op.Kind {
			case "W":
				apply(op.Stmts)
			case "S":
				if err := node.snapshot(op.Trailing); err != nil {
					rec.Label("inconclusive:snapshot-failed")
					rt.Skip("snapshot failed: " + err.Error())
				}
			case "F":
				if err := node.s.snapshotStore.SetDueNext(snapshot.Full); err != nil {
					rt.Skip("set due next: " + err.Error())
				}
			case "R":
				if _, _, err := node.s.Reap(); err != nil {
					rec.Label("inconclusive:reap-failed")
					rt.Skip("reap failed: " + err.Error())
				}
			case "C":
				node.s.NoSnapshotOnClose = !op.SnapOnClose
				if err := node.stop(); err != nil {
					rt.Skip("close failed: " + err.Error())
				}
				stopped = true
				reopen()
			case "K":
				restartIdle(fmt.Sprintf("%d", i))
				reopen()
			}
		}

		// The final operation, recorded.
		before := filepath.Join(root, "before-final")
		if err := vcrash.CopyTree(dir, before); err != nil {
			rt.Skip("copy failed")
		}
		beforeSig := vcrash.TreeSig(dir)
		recd := &vcrash.Recorder{Root: dir, SaveDir: filepath.Join(root, "states"), Torn: true, PartialRemove: true}
		var finalErr error
		recd.Run(func() {
			switch h.Final.Kind {
			case "S":
				finalErr = node.snapshot(h.Final.Trailing)
			case "R":
				_, _, finalErr = node.s.Reap()
			case "C":
				node.s.NoSnapshotOnClose = false
				finalErr = node.stop()
				stopped = true
			}
		})
		if recd.Err != nil {
			rt.Skip("recorder: " + recd.Err.Error())
		}
		if finalErr != nil {
			rec.Label("inconclusive:final-op-failed")
			rt.Skip("final op failed: " + finalErr.Error())
		}
		rec.Label("final:" + h.Final.Kind)
		rec.Label(fmt.Sprintf("final-events:%d", min(len(recd.Events)/10*10, 60)))
		rec.Sample(map[string]any{"history": r.history, "events": len(recd.Events), "states": len(recd.States), "trace": recd.Trace()})
		// crash at idle after the complete history
		if !stopped {
			restartIdle("end")
		} else {
			rec.Case(true, r.history+"/after-close")
			c03Current = r.history + " :: after close"
			res := c03Restart(dir, nil)
			r.judge(res, "after-close", "idle", "idle", dir, false)
		}

		// A reap checkpoints WAL files into the snapshot's data.db inside SQLite,
		// where no filesystem event fires: derive the states an interrupted
		// checkpoint leaves (subset / prefix / all of the WAL's pages already in
		// data.db, WAL still in checkpoint position) from every state taken right
		// after rename(<wal> -> data.db-wal).
		states := append([]vcrash.State{}, recd.States...)
		if h.Final.Kind == "R" {
			for _, cs := range recd.States {
				if cs.Kind != "event" || cs.Ev.Op != "Rename" || cs.Ev.Phase != vos.Post || cs.Ev.Err != nil || !strings.HasSuffix(cs.Ev.Paths[1], "data.db-wal") {
					continue
				}
				relWal, err := filepath.Rel(dir, cs.Ev.Paths[1])
				if err != nil || strings.HasPrefix(relWal, "..") {
					continue
				}
				relDB := strings.TrimSuffix(relWal, "-wal")
				for _, v := range []struct {
					kind string
					pick func(i, n int) bool
				}{
					{"ckpt-odd", func(i, n int) bool { return i%2 == 1 }},
					{"ckpt-prefix", func(i, n int) bool { return i < (n+1)/2 }},
					{"ckpt-all", func(i, n int) bool { return true }},
				} {
					d := filepath.Join(root, "states", cs.Label+"-"+v.kind)
					if vcrash.CopyTree(cs.Dir, d) != nil {
						continue
					}
					if _, err := vcrash.PartialCheckpoint(filepath.Join(d, relDB), filepath.Join(d, relWal), v.pick); err != nil {
						os.RemoveAll(d)
						continue
					}
					states = append(states, vcrash.State{Ev: cs.Ev, Kind: v.kind, Dir: d, Label: cs.Label + "-" + v.kind})
				}
			}
		}

		inside := 0
		for _, cs := range states {
			nontrivial := vcrash.TreeSig(cs.Dir) != beforeSig
			where := c03Where(cs.Ev, dir)
			if nontrivial {
				inside++
			}
			rec.Case(nontrivial, r.history+"/"+cs.Label)
			if err := vcrash.ReplaceTree(cs.Dir, dir); err != nil {
				rt.Skip("restore failed")
			}
			c03Current = r.history + " :: crash state " + cs.Label + " (" + where + "): " + vcrash.Listing(cs.Dir)
			res := c03Restart(dir, nil)
			held := r.judge(res, cs.Label, cs.Kind, where, cs.Dir, false)
			if held && nontrivial && h.Final.Kind == "R" {
				// A reap rewrites the snapshot store but not the live database, so the
				// fast path above cannot see what it left behind: restart once more
				// from the same crash state through the restore path (fingerprint
				// absent, as after Store.ForceSnapshotRestore): snapshot store + log
				// must rebuild exactly the acknowledged state.
				if err := vcrash.ReplaceTree(cs.Dir, dir); err != nil {
					rt.Skip("restore failed")
				}
				os.Remove(filepath.Join(dir, cleanSnapshotName))
				rec.Case(true, r.history+"/"+cs.Label+"/forced-restore")
				c03Current = r.history + " :: crash state " + cs.Label + " (" + where + "), forced restore: " + vcrash.Listing(cs.Dir)
				res := c03Restart(dir, nil)
				held = r.judge(res, cs.Label+"/forced-restore", cs.Kind+"+forced-restore", where, cs.Dir, false)
			}
			if held && nontrivial && (inside-1)%h.NestStride == (h.NestOff+1)%h.NestStride {
				if err := vcrash.ReplaceTree(cs.Dir, dir); err != nil {
					rt.Skip("restore failed")
				}
				rec.Label("aftermath:where=" + where)
				r.aftermath(cs.Label, where, cs.Dir)
			}
			if held && nontrivial && (inside-1)%h.NestStride == h.NestOff {
				// crash again during the restart from this state
				if err := vcrash.ReplaceTree(cs.Dir, dir); err != nil {
					rt.Skip("restore failed")
				}
				nrec := &vcrash.Recorder{Root: dir, SaveDir: filepath.Join(root, "nested"), Torn: true, PartialRemove: true}
				c03Restart(dir, nrec.Run)
				for _, ns := range nrec.States {
					rec.Case(true, r.history+"/"+cs.Label+">"+ns.Label)
					if err := vcrash.ReplaceTree(ns.Dir, dir); err != nil {
						rt.Skip("restore failed")
					}
					c03Current = r.history + " :: crash state " + cs.Label + ">" + ns.Label + ": " + vcrash.Listing(ns.Dir)
					res := c03Restart(dir, nil)
					r.judge(res, cs.Label+">"+ns.Label, ns.Kind, "restart:"+c03Where(ns.Ev, dir), ns.Dir, true)
				}
				nrec.Cleanup()
			}
		}
		// Power loss: directory entries not yet made durable are lost (creates and
		// renames since the directory was last fsynced are undone, newest first).
		seen := map[string]bool{}
		for _, cs := range recd.States {
			seen[vcrash.TreeSig(cs.Dir)] = true
		}
		lostStride := 1
		if !vstat.Thorough() {
			lostStride = max(h.NestStride/3, 2)
		}
		lostOff := os.Getenv("VERIF_C03_LOST_ENTRIES") == "0" // can be switched off in checks.d (unit env)
		for i, cs := range recd.States {
			if lostOff || cs.Kind != "event" || i%lostStride != h.NestOff%lostStride {
				continue
			}
			for _, ls := range recd.LostEntryStates(cs, seen) {
				rec.Case(true, r.history+"/"+ls.Label)
				if err := vcrash.ReplaceTree(ls.Dir, dir); err != nil {
					rt.Skip("restore failed")
				}
				c03Current = r.history + " :: crash state " + ls.Label + ": " + vcrash.Listing(ls.Dir)
				res := c03Restart(dir, nil)
				r.judge(res, ls.Label, ls.Kind, c03Where(cs.Ev, dir), ls.Dir, false)
				os.RemoveAll(ls.Dir)
			}
		}
		recd.Cleanup()
	})
}
