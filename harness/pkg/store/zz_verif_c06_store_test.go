package store

// C06 at store level: the keep/cancel rule of Store.fsmSnapshot.
//
// A single-node store runs a schedule of write transactions, readers that block
// checkpoints (independent read-only connections to the database file, or
// ForceStall queries) and incremental snapshot attempts. An attempt is the
// FSM's Snapshot() (Store.fsmSnapshot, what raft calls). The harness plays the
// part of the snapshot sink: after a successful attempt it takes the WAL files
// out of the WAL staging directory in name order (as StagingDir.MoveWALFilesTo
// does), lets SQLite checkpoint each into a mirror database and compares the
// mirror with the live database. After a failed attempt the staging directory
// must be exactly as it was before the attempt (nothing captured is left behind).

import (
	"bytes"
	"context"
	"database/sql"
	"encoding/binary"
	"errors"
	"fmt"
	"net"
	"os"
	"path/filepath"
	"sort"
	"strings"
	"testing"
	"time"

	"github.com/hashicorp/raft"
	"github.com/rqlite/rqlite/v10/command/proto"
	"github.com/rqlite/rqlite/v10/internal/verif/vsql"
	"github.com/rqlite/rqlite/v10/internal/verif/vstat"
	"github.com/rqlite/rqlite/v10/snapshot"
	"pgregory.net/rapid"
)

type c06Layer struct{ ln net.Listener }

func (l *c06Layer) Dial(addr string, timeout time.Duration) (net.Conn, error) {
	return net.DialTimeout("tcp", addr, timeout)
}
func (l *c06Layer) Accept() (net.Conn, error) { return l.ln.Accept() }
func (l *c06Layer) Close() error              { return l.ln.Close() }
func (l *c06Layer) Addr() net.Addr            { return l.ln.Addr() }

type c06SReader struct {
	raw    *sql.DB
	cancel context.CancelFunc
	done   chan struct{}
}

func (r *c06SReader) stop() {
	if r.raw != nil {
		r.raw.Exec("ROLLBACK")
		r.raw.Close()
		return
	}
	r.cancel()
	<-r.done
}

func c06SStmt(q string, args ...any) *proto.Statement {
	st := &proto.Statement{Sql: q}
	for _, a := range args {
		switch v := a.(type) {
		case int:
			st.Parameters = append(st.Parameters, &proto.Parameter{Value: &proto.Parameter_I{I: int64(v)}})
		case []byte:
			st.Parameters = append(st.Parameters, &proto.Parameter{Value: &proto.Parameter_Y{Y: v}})
		}
	}
	return st
}

func c06SApply(mirror string, segPath string) error {
	for _, sfx := range []string{"-wal", "-shm"} {
		os.Remove(mirror + sfx)
	}
	if err := vsql.CopyFile(segPath, mirror+"-wal"); err != nil {
		return err
	}
	db, err := vsql.Open(mirror)
	if err != nil {
		return fmt.Errorf("open mirror with segment: %w", err)
	}
	var busy, nlog, nckpt int
	err = db.QueryRow("PRAGMA wal_checkpoint(TRUNCATE)").Scan(&busy, &nlog, &nckpt)
	cerr := db.Close()
	if err != nil {
		return err
	}
	if busy != 0 {
		return fmt.Errorf("mirror checkpoint busy")
	}
	return cerr
}

func c06SDump(path string, params ...string) (string, error) {
	db, err := vsql.Open(path, params...)
	if err != nil {
		return "", err
	}
	defer db.Close()
	return vsql.DumpDB(db)
}

func c06SListDir(dir string) []string {
	ents, err := os.ReadDir(dir)
	if err != nil {
		return nil
	}
	var out []string
	for _, e := range ents {
		out = append(out, e.Name())
	}
	sort.Strings(out)
	return out
}

func TestVerif_C06_Store(t *testing.T) {
	rec := vstat.New(t, "C06", "store",
		"single-node store; schedules of up to 10 (thorough 16) steps: write transaction through Store.Execute, start/stop reader (independent read-only connection with BEGIN+SELECT, or ForceStall query), incremental snapshot attempt = Store.fsmSnapshot() with the harness consuming the WAL staging directory like the snapshot sink. Every schedule ends with all readers stopped and a final attempt. Non-trivial = a failed attempt (checkpoint busy) or one that left the WAL in place, followed by write(s) and a later successful attempt. Distinct = operation sequence with outcomes.")
	c06StoreCheck(t, rec, false)
}

// TestVerif_C06_StoreRaft drives the same schedules through the whole snapshot
// path: every attempt is Store.Snapshot(0) (raft -> fsmSnapshot -> Persist into
// the snapshot store, reaper running). After a successful attempt the newest
// snapshot is opened from the snapshot store and restored with snapshot.Restore
// into a scratch file, which must equal the live database.
func TestVerif_C06_StoreRaft(t *testing.T) {
	rec := vstat.New(t, "C06", "storeraft",
		"single-node store; same schedules as the store unit, every attempt is Store.Snapshot(0) through raft and the real snapshot store; after each successful attempt the newest snapshot is restored (snapshot.Restore) and compared with the live database; after a failed attempt the WAL staging directory must be unchanged. Non-trivial and distinct as in the store unit.")
	c06StoreCheck(t, rec, true)
}

func c06StoreCheck(t *testing.T, rec *vstat.Rec, viaRaft bool) {
	maxSteps := vstat.Scale(10, 16)
	root := t.TempDir()
	caseNo := 0
	rapid.Check(t, func(rt *rapid.T) {
		caseNo++
		dir := filepath.Join(root, fmt.Sprintf("s%d", caseNo))
		if err := os.MkdirAll(dir, 0o755); err != nil {
			rt.Skipf("mkdir: %v", err)
		}
		defer os.RemoveAll(dir)
		ln, err := net.Listen("tcp", "127.0.0.1:0")
		if err != nil {
			rt.Skipf("listen: %v", err)
		}
		ly := &c06Layer{ln}
		s := New(&Config{DBConf: NewDBConfig(), Dir: filepath.Join(dir, "node"), ID: "n1"}, ly)
		s.HeartbeatTimeout = 150 * time.Millisecond
		s.ElectionTimeout = 150 * time.Millisecond
		s.LeaderLeaseTimeout = 100 * time.Millisecond
		s.NoSnapshotOnClose = true
		s.SnapshotThreshold = 1 << 40
		s.SnapshotInterval = time.Hour
		s.SnapshotThresholdWALSize = 0
		if err := s.Open(); err != nil {
			ln.Close()
			rt.Skipf("open: %v", err)
		}
		readers := map[int]*c06SReader{}
		defer func() {
			for _, r := range readers {
				r.stop()
			}
			s.Close(true)
			ln.Close()
		}()
		if err := s.Bootstrap(NewServer(s.ID(), s.Addr(), true)); err != nil {
			rt.Skipf("bootstrap: %v", err)
		}
		if _, err := s.WaitForLeader(30 * time.Second); err != nil {
			rec.Label("skip:no-leader")
			return
		}
		ctx := context.Background()
		var ops []string
		note := func(f string, a ...any) { ops = append(ops, fmt.Sprintf(f, a...)) }
		rnd := rapid.Uint64().Draw(rt, "payload-seed") | 1
		blob := func(n int) []byte {
			b := make([]byte, n)
			for i := range b {
				if i%8 == 0 {
					rnd ^= rnd << 13
					rnd ^= rnd >> 7
					rnd ^= rnd << 17
				}
				b[i] = byte(rnd >> (8 * uint(i%8)))
			}
			return b
		}
		nextK := 0
		exec := func(stmts ...*proto.Statement) error {
			_, _, err := s.Execute(ctx, &proto.ExecuteRequest{Request: &proto.Request{Transaction: true, Statements: stmts}})
			return err
		}
		if err := exec(c06SStmt("CREATE TABLE t(id INTEGER PRIMARY KEY, k INT, v BLOB)")); err != nil {
			rec.Label("skip:schema")
			return
		}
		var init []*proto.Statement
		for i := 0; i < rapid.IntRange(1, 10).Draw(rt, "initial-rows"); i++ {
			init = append(init, c06SStmt("INSERT INTO t(k,v) VALUES(?,?)", nextK, blob(40)))
			nextK++
		}
		exec(init...)
		// first snapshot through raft: full
		if err := s.Snapshot(0); err != nil {
			rec.Label("skip:initial-snapshot")
			rt.Logf("initial snapshot: %v", err)
			return
		}
		mirror := filepath.Join(dir, "mirror.db")
		if err := vsql.CopyFile(s.dbPath, mirror); err != nil {
			rt.Skipf("copy: %v", err)
		}
		if sz, _ := os.Stat(s.walPath); sz != nil && sz.Size() != 0 {
			rec.Label("skip:wal-not-empty-after-full")
			return
		}
		os.RemoveAll(s.walStagingDir) // consumed by the snapshot store, if anything

		type att struct {
			kept, failed, partial bool
			writes                int
		}
		var atts []att
		writes := 0
		var violation func()
		fail := func(sig, f string, a ...any) {
			msg := fmt.Sprintf(f, a...) + " :: " + strings.Join(ops, " ")
			violation = func() { rt.Fatalf("%s", rec.Violation(sig, "%s", msg)) }
		}

		prevPartial := false
		var prevSalt [2]uint32
		readSalt := func() (salt [2]uint32, size int64) {
			b, err := os.ReadFile(s.walPath)
			if err != nil || len(b) < 32 {
				return salt, int64(len(b))
			}
			return [2]uint32{binary.BigEndian.Uint32(b[16:]), binary.BigEndian.Uint32(b[20:])}, int64(len(b))
		}
		restoreNo := 0
		attempt := func() {
			before := c06SListDir(s.walStagingDir)
			saltNow, walSzBefore := readSalt()
			resetSincePartial := prevPartial && walSzBefore >= 32 && saltNow != prevSalt
			resumed := prevPartial && walSzBefore >= 32 && saltNow == prevSalt
			var fs raft.FSMSnapshot
			var err error
			nFullBefore := s.numFullSnapshots
			if viaRaft {
				err = s.Snapshot(0)
			} else {
				fs, err = s.fsmSnapshot()
			}
			after := c06SListDir(s.walStagingDir)
			if err != nil {
				if err == ErrNoWALToSnapshot || err == ErrNothingNewToSnapshot {
					note("snap:nowal")
					rec.Label("attempt:no-wal-or-nothing-new")
					if strings.Join(before, ",") != strings.Join(after, ",") {
						fail("C06/failed-attempt-left-segment", "snapshot attempt returned %v but the WAL staging directory changed: before %v after %v", err, before, after)
					}
					return
				}
				atts = append(atts, att{failed: true, writes: writes})
				switch {
				case strings.Contains(err.Error(), "busy"):
					note("snap:busy")
					rec.Label("attempt:busy")
				case strings.Contains(err.Error(), "open transaction"):
					note("snap:open-tx-error")
					rec.Label("attempt:error-open-transaction(C05 class)")
				default:
					note("snap:error")
					rec.Label("attempt:error-other")
					rt.Logf("fsmSnapshot error: %v", err)
				}
				if strings.Join(before, ",") != strings.Join(after, ",") {
					fail("C06/failed-attempt-left-segment", "snapshot attempt failed (%v) but the WAL staging directory changed: before %v after %v", err, before, after)
				}
				return
			}
			if resetSincePartial {
				rec.Label("attempt:ok-after-wal-reset")
			}
			if resumed {
				rec.Label("attempt:ok-after-resume")
			}
			if viaRaft {
				_, walSz := readSalt()
				a := att{kept: true, partial: walSz > 0, writes: writes}
				atts = append(atts, a)
				prevPartial, prevSalt = a.partial, saltNow
				full := s.numFullSnapshots != nFullBefore
				switch {
				case full:
					note("snap:full")
					rec.Label("attempt:full")
				case a.partial:
					note("snap:partial")
					rec.Label("attempt:kept(all-moved,not-truncated)")
				default:
					note("snap:ok")
					rec.Label("attempt:kept(truncated)")
				}
				// the snapshot store is locked while the reaper runs ("MSRW conflict"):
				// retry with a generous deadline; expiry is inconclusive, not a violation
				restoreNo++
				dst := filepath.Join(dir, fmt.Sprintf("restored-%d.db", restoreNo))
				deadline := time.Now().Add(15 * time.Second)
				var lastErr error
				var snapID string
				for {
					lastErr = func() error {
						metas, err := s.snapshotStore.List()
						if err != nil {
							return err
						}
						if len(metas) == 0 {
							return fmt.Errorf("snapshot store lists nothing")
						}
						snapID = metas[0].ID
						_, rc, err := s.snapshotStore.Open(snapID)
						if err != nil {
							return err
						}
						defer rc.Close()
						for _, sfx := range []string{"", "-wal", "-shm"} {
							os.Remove(dst + sfx)
						}
						_, err = snapshot.Restore(rc, dst)
						return err
					}()
					if lastErr == nil || time.Now().After(deadline) {
						break
					}
					time.Sleep(20 * time.Millisecond)
				}
				if lastErr != nil {
					if strings.Contains(lastErr.Error(), "conflict") {
						rec.Label("skip:snapshot-store-locked")
						return
					}
					fail("C06/snapshot-unrestorable", "cannot restore newest snapshot %s after a successful Snapshot(0): %v", snapID, lastErr)
					return
				}
				rd, err := c06SDump(dst)
				if err != nil {
					fail("C06/restored-unreadable", "restored snapshot unreadable: %v", err)
					return
				}
				ld, err := c06SDump(s.dbPath, "mode=ro")
				if err != nil {
					rec.Label("skip:live-dump")
					return
				}
				if rd != ld {
					fail("C06/storeraft-restored-diverges", "database restored from the newest snapshot differs from the live database after a successful snapshot (%d vs %d bytes of dump; full=%v)", len(rd), len(ld), full)
					return
				}
				rb, e1 := os.ReadFile(dst)
				lb, e2 := os.ReadFile(s.dbPath)
				if e1 == nil && e2 == nil {
					if bytes.Equal(rb, lb) {
						rec.Label("success:file-bytes-equal")
					} else {
						rec.Label("success:file-bytes-differ(logical-equal)")
					}
				}
				for _, sfx := range []string{"", "-wal", "-shm"} {
					os.Remove(dst + sfx)
				}
				return
			}
			snap, ok := fs.(*FSMSnapshot)
			if !ok {
				fs.Release()
				rec.Label("skip:unexpected-snapshot-type")
				return
			}
			defer snap.Release()
			if snap.Type.IsFull() {
				// the store decided that a full snapshot was due: new base
				note("snap:full")
				rec.Label("attempt:full")
				os.Remove(mirror)
				if err := vsql.CopyFile(s.dbPath, mirror); err != nil {
					rec.Label("skip:copy")
				}
				os.RemoveAll(s.walStagingDir)
				atts = append(atts, att{kept: true, writes: writes})
				prevPartial = false
				return
			}
			// consume the staging directory like the sink
			var wals []string
			for _, n := range after {
				if strings.HasSuffix(n, ".wal") {
					wals = append(wals, n)
					if _, err := os.Stat(filepath.Join(s.walStagingDir, n+".crc32")); err != nil {
						fail("C06/staged-wal-without-checksum", "staged WAL %s has no checksum sidecar after a successful attempt", n)
						return
					}
				}
			}
			if len(wals) == 0 {
				fail("C06/success-without-segment", "incremental snapshot attempt succeeded but staged no WAL file (dir: %v)", after)
				return
			}
			if len(wals) > 1 {
				rec.Label("success:multiple-staged-wals")
			}
			for _, n := range wals {
				p := filepath.Join(s.walStagingDir, n)
				if err := c06SApply(mirror, p); err != nil {
					fail("C06/segment-rejected", "SQLite cannot apply staged segment %s: %v", n, err)
					return
				}
				os.Remove(p)
				os.Remove(p + ".crc32")
			}
			walSz := int64(0)
			if st, err := os.Stat(s.walPath); err == nil {
				walSz = st.Size()
			}
			a := att{kept: true, partial: walSz > 0, writes: writes}
			atts = append(atts, a)
			prevPartial, prevSalt = a.partial, saltNow
			if a.partial {
				note("snap:partial")
				rec.Label("attempt:kept(all-moved,not-truncated)")
			} else {
				note("snap:ok")
				rec.Label("attempt:kept(truncated)")
			}
			md, err := c06SDump(mirror)
			if err != nil {
				fail("C06/mirror-unreadable", "mirror unreadable: %v", err)
				return
			}
			ld, err := c06SDump(s.dbPath, "mode=ro")
			if err != nil {
				rec.Label("skip:live-dump")
				return
			}
			if md != ld {
				fail("C06/store-mirror-diverges", "database rebuilt from the staged segments differs from the live database (%d vs %d bytes of dump)", len(md), len(ld))
				return
			}
			mb, e1 := os.ReadFile(mirror)
			lb, e2 := os.ReadFile(s.dbPath)
			if e1 == nil && e2 == nil && !bytes.Equal(mb, lb) {
				fail("C06/store-mirror-bytes-differ", "rebuilt database file differs in bytes from the live file (%d vs %d)", len(mb), len(lb))
			}
		}

		nSteps := rapid.IntRange(3, maxSteps).Draw(rt, "nsteps")
		for step := 0; step < nSteps && violation == nil; step++ {
			op := rapid.SampledFrom([]string{"write", "write", "write", "write", "write", "start", "start", "stop", "stopall", "snap", "snap", "snap", "start+snap", "start+snap"}).Draw(rt, "op")
			doSnap := false
			if prevPartial && rapid.SampledFrom([]bool{true, false, false}).Draw(rt, "release-and-write") {
				// WAL left in place: with every reader gone the next write restarts it
				for id, r := range readers {
					r.stop()
					delete(readers, id)
				}
				note("stopall")
				op = "write"
			}
			if op == "start+snap" {
				op, doSnap = "start", true
			}
			switch op {
			case "write":
				writes++
				n := rapid.SampledFrom([]int{1, 1, 3, 20, 100}).Draw(rt, "rows")
				bl := rapid.SampledFrom([]int{0, 20, 300, 2000}).Draw(rt, "bloblen")
				kind := rapid.SampledFrom([]string{"ins", "ins", "ins", "upd", "del"}).Draw(rt, "write-kind")
				switch kind {
				case "ins":
					var st []*proto.Statement
					for i := 0; i < n; i++ {
						st = append(st, c06SStmt("INSERT INTO t(k,v) VALUES(?,?)", nextK, blob(bl)))
						nextK++
					}
					exec(st...)
					note("ins(%d,%d)", n, bl)
				case "upd":
					exec(c06SStmt("UPDATE t SET v=?, k=k+100000 WHERE id%3=0", blob(bl)))
					note("upd(%d)", bl)
				case "del":
					exec(c06SStmt("DELETE FROM t WHERE id%4=0"))
					note("del")
				}
			case "start":
				if len(readers) >= 2 {
					break
				}
				id := 0
				for readers[id] != nil {
					id++
				}
				if rapid.IntRange(0, 3).Draw(rt, "reader-kind") == 0 {
					cctx, cancel := context.WithCancel(ctx)
					r := &c06SReader{cancel: cancel, done: make(chan struct{})}
					go func() {
						defer close(r.done)
						s.db.QueryWithContext(cctx, &proto.Request{Statements: []*proto.Statement{{Sql: "SELECT id FROM t", ForceStall: true}}}, false)
					}()
					time.Sleep(10 * time.Millisecond)
					readers[id] = r
					note("start%d(stall)", id)
				} else {
					raw, err := vsql.Open(s.dbPath, "mode=ro")
					if err != nil {
						break
					}
					var n int
					if _, err := raw.Exec("BEGIN"); err != nil {
						raw.Close()
						break
					}
					if err := raw.QueryRow("SELECT count(*) FROM t").Scan(&n); err != nil {
						raw.Close()
						break
					}
					readers[id] = &c06SReader{raw: raw}
					note("start%d", id)
				}
			case "stop":
				for id := 0; id < 2; id++ {
					if readers[id] != nil {
						readers[id].stop()
						delete(readers, id)
						note("stop%d", id)
						break
					}
				}
			case "stopall":
				for id, r := range readers {
					r.stop()
					delete(readers, id)
				}
				note("stopall")
			case "snap":
				doSnap = true
			}
			if doSnap {
				attempt()
			}
		}
		if violation == nil {
			for id, r := range readers {
				r.stop()
				delete(readers, id)
			}
			note("stopall")
			attempt()
		}
		nontrivial := false
		for i, a := range atts {
			if !(a.failed || a.partial) {
				continue
			}
			for _, b := range atts[i+1:] {
				if b.kept && b.writes > a.writes {
					nontrivial = true
				}
			}
		}
		rec.Case(nontrivial, strings.Join(ops, " "))
		rec.Sample(strings.Join(ops, " "))
		if violation != nil {
			violation()
		}
		_ = errors.Is
	})
}
