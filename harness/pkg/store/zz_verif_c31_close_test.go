package store

// C31: closing a node while a snapshot, backup or startup integrity check holds
// the snapshot gate waits for that operation and proceeds promptly once it
// finishes; closing fails only if the operation is still running after the
// shutdown wait limit of about ten seconds.
//
// Generator: a real single-node Store; a gate holder of generated kind and
// duration d; Close(wait) called at a generated offset after the holder is
// known to hold the gate.
//   kinds: "backup"   public: binary Backup into a writer whose first Write
//                     blocks for d (the gate is held while the file is copied)
//          "backupgz" same, compressed
//          "cas"      white-box: the gate (snapshotCAS) taken directly for d
//                     under the owner name a snapshot uses
//          "snapshot" public: a user Snapshot of a database with generated
//                     size runs concurrently (duration not controlled)
// Oracle (from the statement; the statement itself gives the time bounds):
//   * Close returning nil must not return before the holder released the gate
//     ("waits for that operation");
//   * Close returning nil returns within c31Slack after max(close call, holder
//     release) ("proceeds promptly once it finishes");
//   * Close may return an error only if the holder still held the gate about
//     ten seconds (>= c31MinFail) after Close was called.
// The slack (1.5 s) is far above the cost of a close of these tiny stores (tens
// of ms; see the lateness labels) and far below the ten-second limit.

import (
	"context"
	"fmt"
	"os"
	"sync"
	"testing"
	"time"

	"github.com/rqlite/rqlite/v10/internal/verif/vstat"
	"pgregory.net/rapid"
)

const (
	c31Slack   = 1500 * time.Millisecond // "promptly"
	c31MinFail = 8 * time.Second         // "about ten seconds", lower edge
)

type c31Case struct {
	Kind        string
	HoldMs      int
	OffsetMs    int
	SnapOnClose bool
	Wait        bool
	Rows        int
	ApplyMs     int // Store.ApplyTimeout as a deployment may set it (0: default)
}

func (c c31Case) String() string {
	return fmt.Sprintf("kind=%s hold=%dms offset=%dms snapOnClose=%v wait=%v rows=%d applyTimeout=%dms", c.Kind, c.HoldMs, c.OffsetMs, c.SnapOnClose, c.Wait, c.Rows, c.ApplyMs)
}

func c31Gen(rt *rapid.T) c31Case {
	var c c31Case
	c.Kind = rapid.SampledFrom([]string{"backup", "backup", "backupgz", "cas", "cas", "snapshot"}).Draw(rt, "kind")
	holds := []int{0, 50, 300, 1000, 3000}
	if vstat.Thorough() {
		holds = []int{0, 50, 300, 1000, 3000, 5000, 7000, 11000, 12500}
	}
	if c.Kind != "snapshot" {
		switch rapid.IntRange(0, 9).Draw(rt, "holdClass") {
		case 0, 1, 2, 3, 4:
			c.HoldMs = rapid.SampledFrom(holds).Draw(rt, "holdMs")
		case 5, 6:
			c.HoldMs = rapid.IntRange(1100, 1600).Draw(rt, "holdMsA")
		case 7, 8:
			c.HoldMs = rapid.IntRange(2400, 3700).Draw(rt, "holdMsB")
		default: // one long holder now and then
			c.HoldMs = rapid.IntRange(5000, 5800).Draw(rt, "holdMsC")
		}
		switch rapid.IntRange(0, 3).Draw(rt, "offsetKind") {
		case 0:
			c.OffsetMs = 0
		case 1:
			c.OffsetMs = rapid.IntRange(0, c.HoldMs).Draw(rt, "offsetIn")
		case 2: // just before the release
			c.OffsetMs = c.HoldMs - rapid.IntRange(0, 30).Draw(rt, "offsetBefore")
			if c.OffsetMs < 0 {
				c.OffsetMs = 0
			}
		default: // after the release
			c.OffsetMs = c.HoldMs + rapid.IntRange(0, 100).Draw(rt, "offsetAfter")
		}
		c.Rows = rapid.IntRange(1, 50).Draw(rt, "rows")
	} else {
		c.OffsetMs = rapid.IntRange(0, 10).Draw(rt, "offsetSnap")
		c.Rows = rapid.IntRange(200, 3000).Draw(rt, "rowsSnap")
	}
	c.SnapOnClose = rapid.Bool().Draw(rt, "snapOnClose")
	c.Wait = rapid.Bool().Draw(rt, "wait")
	c.ApplyMs = rapid.SampledFrom([]int{0, 0, 500, 2000, 30000}).Draw(rt, "applyTimeoutMs")
	return c
}

// c31BlockingWriter blocks its first Write for d.
type c31BlockingWriter struct {
	d        time.Duration
	held     chan struct{}
	once     sync.Once
	mu       sync.Mutex
	release  time.Time
	nwritten int64
}

func (w *c31BlockingWriter) Write(p []byte) (int, error) {
	w.once.Do(func() {
		close(w.held)
		if w.d > 0 {
			time.Sleep(w.d)
		}
		w.mu.Lock()
		w.release = time.Now()
		w.mu.Unlock()
	})
	w.mu.Lock()
	w.nwritten += int64(len(p))
	w.mu.Unlock()
	return len(p), nil
}

func TestVerif_C31_Close(t *testing.T) {
	rec := vstat.New(t, "C31", "close",
		"real single-node Store; gate holder kind in {binary backup into a blocking writer, compressed backup, white-box CAS, concurrent user snapshot} x hold d in {0,50,300,1000,3000 ms} or generated in 1.1-1.6 s, 2.4-3.7 s, now and then 5.0-5.8 s (thorough: up to 12.5 s) x Close(wait) offset (0, inside, just before release, after release) x snapshot-on-close x wait x Store.ApplyTimeout {default, 0.5 s, 2 s, 30 s}; non-trivial = the gate was still held when Close was called; distinct by (kind,hold,offset,flags)")
	rapid.Check(t, func(rt *rapid.T) {
		defer g8bRecoverInfra(rec, t)
		c := c31Gen(rt)
		dir, err := os.MkdirTemp("", "c31-")
		if err != nil {
			g8bInfra("tempdir")
		}
		defer os.RemoveAll(dir)
		n, err := g8bOpenSingle("", dir, func(s *Store) { s.NoSnapshotOnClose = !c.SnapOnClose })
		if err != nil {
			t.Logf("infrastructure: %v", err)
			g8bInfra("store did not come up")
		}
		s := n.S
		closed := false
		defer func() {
			if !closed {
				n.Close()
			} else {
				n.Ln.Close()
			}
		}()
		stmts := []string{"CREATE TABLE t(id INTEGER PRIMARY KEY, v TEXT)"}
		for i := 0; i < c.Rows; i++ {
			stmts = append(stmts, fmt.Sprintf("INSERT INTO t(v) VALUES('%0200d')", i))
		}
		if _, _, err := g8bExec(s, true, stmts...); err != nil {
			g8bInfra("setup write failed: " + err.Error())
		}

		// other timeouts of the deployment must not change the shutdown wait limit
		// (set after the set-up write so that a small value cannot fail the set-up)
		if c.ApplyMs > 0 {
			s.ApplyTimeout = time.Duration(c.ApplyMs) * time.Millisecond
		}
		rec.Label(fmt.Sprintf("applyTimeout=%dms", c.ApplyMs))

		held := make(chan struct{})
		done := make(chan struct{})
		var mu sync.Mutex
		var release time.Time
		var holderErr error
		d := time.Duration(c.HoldMs) * time.Millisecond
		switch c.Kind {
		case "backup", "backupgz":
			w := &c31BlockingWriter{d: d, held: held}
			go func() {
				defer close(done)
				e := s.Backup(context.Background(), backupRequestBinary(true, false, c.Kind == "backupgz"), w)
				w.once.Do(func() { close(w.held) }) // never wrote: unblock the main goroutine
				mu.Lock()
				holderErr = e
				w.mu.Lock()
				release = w.release
				w.mu.Unlock()
				mu.Unlock()
			}()
		case "cas":
			if err := s.snapshotCAS.Begin("snapshot"); err != nil {
				g8bInfra("gate unexpectedly busy")
			}
			close(held)
			go func() {
				defer close(done)
				time.Sleep(d)
				mu.Lock()
				release = time.Now()
				mu.Unlock()
				s.snapshotCAS.End()
			}()
		case "snapshot":
			go func() {
				defer close(done)
				close(held)
				e := s.Snapshot(0)
				mu.Lock()
				holderErr = e
				release = time.Now()
				mu.Unlock()
			}()
		}
		select {
		case <-held:
		case <-time.After(60 * time.Second):
			<-done
			g8bInfra("holder did not reach the gate")
		}
		if c.OffsetMs > 0 {
			time.Sleep(time.Duration(c.OffsetMs) * time.Millisecond)
		}
		ownerAtClose := s.snapshotCAS.Owner()
		closeCall := time.Now()
		cerr := s.Close(c.Wait)
		closeRet := time.Now()
		if cerr == nil {
			closed = true
		}
		// the holder must be allowed to finish before the case ends
		select {
		case <-done:
		case <-time.After(60 * time.Second):
			t.Fatalf("harness: holder never finished")
		}
		mu.Lock()
		rel, herr := release, holderErr
		mu.Unlock()

		gateHeld := ownerAtClose != "" && (rel.IsZero() || closeCall.Before(rel))
		rec.Case(gateHeld, fmt.Sprintf("%s/%d/%d/%v/%v/%d", c.Kind, c.HoldMs, c.OffsetMs, c.SnapOnClose, c.Wait, c.ApplyMs))
		rec.Label("kind=" + c.Kind)
		switch {
		case c.HoldMs < 1100:
			rec.Label(fmt.Sprintf("hold=%dms", c.HoldMs))
		case c.HoldMs < 2000:
			rec.Label("hold=1.1-1.6s")
		case c.HoldMs < 4000 && c.HoldMs != 3000:
			rec.Label("hold=2.4-3.7s")
		case c.HoldMs >= 5000 && c.HoldMs < 6000 && c.HoldMs != 5000:
			rec.Label("hold=5.0-5.8s")
		default:
			rec.Label(fmt.Sprintf("hold=%dms", c.HoldMs))
		}
		if gateHeld {
			rec.Label("gate-held-at-close")
		} else {
			rec.Label("gate-free-at-close")
		}
		if cerr != nil {
			rec.Label("close-error")
		}
		if herr != nil {
			rec.Label("holder-error")
		}
		took := closeRet.Sub(closeCall)
		rec.Sample(fmt.Sprintf("%s gateHeld=%v closeTook=%s err=%v", c, gateHeld, took.Round(time.Millisecond), cerr))

		if cerr != nil {
			// allowed only if the holder was still running ~10 s after the call
			stillHeld := rel.IsZero() || rel.After(closeRet) || rel.Sub(closeCall) >= c31MinFail
			if !stillHeld || took < c31MinFail {
				sig := "C31/close-failed-early"
				if rec.KnownHit(sig, "Close fails although the gate holder finished well before the ten-second limit") {
					return
				}
				rt.Fatalf("%s", rec.Violation(sig, "Close returned error %q after %s; holder released %s after the close call; case %s", cerr, took, rel.Sub(closeCall), c))
			}
			return
		}
		if c.Kind != "snapshot" && !rel.IsZero() && closeRet.Before(rel) {
			sig := "C31/close-did-not-wait"
			if rec.KnownHit(sig, "Close succeeds while the gate holder is still running") {
				return
			}
			rt.Fatalf("%s", rec.Violation(sig, "Close returned nil %s before the holder released the gate; case %s", rel.Sub(closeRet), c))
		}
		if c.Kind != "snapshot" && rel.IsZero() && herr == nil {
			// a backup that never wrote anything: nothing to judge
			rec.Label("holder-never-wrote")
			return
		}
		ref := closeCall
		if !rel.IsZero() && rel.After(ref) {
			ref = rel
		}
		switch late := closeRet.Sub(ref); {
		case late < 100*time.Millisecond:
			rec.Label("lateness<100ms")
		case late < 500*time.Millisecond:
			rec.Label("lateness<500ms")
		case late < c31Slack:
			rec.Label("lateness<1.5s")
		}
		if late := closeRet.Sub(ref); late > c31Slack {
			sig := "C31/close-late-after-release"
			if rec.KnownHit(sig, "Close keeps waiting long after the gate holder released the gate") {
				return
			}
			rt.Fatalf("%s", rec.Violation(sig, "Close returned %s after the later of (close call, holder release); it took %s in total, the holder released %s after the close call (gate owner at close call: %q); case %s",
				late.Round(time.Millisecond), took.Round(time.Millisecond), rel.Sub(closeCall).Round(time.Millisecond), ownerAtClose, c))
		}
	})
}
