package store

// C15, store-level unit: generated requests are sent to a real single-node
// Store through its three request entry points (Execute, Query at
// none/weak/strong, Request at none/weak/strong) — the same calls the HTTP and
// cluster services make — and after every request the node's database is
// observed: file header (journal mode), hash of the main database file (with
// automatic checkpointing off it may only change through a checkpoint; steps
// during which the Store itself took a snapshot are not judged), and
// journal_mode / wal_autocheckpoint / synchronous / query_only as reported by
// the read-write connection and by the read-only pool.
// Any change is a violation, whatever the Store answered.
//
// White-box only for s.db / s.dbPath / s.numSnapshots (observation).

import (
	"context"
	"crypto/sha256"
	"encoding/hex"
	"fmt"
	"math/rand/v2"
	"net"
	"os"
	"path/filepath"
	"strings"
	"testing"
	"time"

	"github.com/rqlite/rqlite/v10/command/proto"
	csql "github.com/rqlite/rqlite/v10/command/sql"
	"github.com/rqlite/rqlite/v10/internal/verif/vstat"
	"pgregory.net/rapid"
)

type c15sGen struct{ rng *rand.Rand }

func (g *c15sGen) of(xs ...string) string { return xs[g.rng.IntN(len(xs))] }
func (g *c15sGen) pct(p int) bool         { return g.rng.IntN(100) < p }

var c15sValues = map[string][]string{
	"journal_mode":       {"delete", "truncate", "persist", "off", "'delete'"},
	"wal_autocheckpoint": {"1", "1000", "-1"},
	"synchronous":        {"1", "2", "FULL", "extra"},
	"query_only":         {"1", "ON", "true"},
	"wal_checkpoint":     {"PASSIVE", "FULL", "TRUNCATE"},
}

// pragma returns a critical PRAGMA statement in a random spelling and the
// name of the spelling dimension used (one per statement, so the signature is exact).
func (g *c15sGen) pragma() (text, name, vector string) {
	names := []string{"journal_mode", "wal_autocheckpoint", "synchronous", "query_only", "wal_checkpoint"}
	name = names[g.rng.IntN(len(names))]
	v := c15sValues[name][g.rng.IntN(len(c15sValues[name]))]
	kw := g.of("PRAGMA", "pragma", "PrAgMa")
	nm := g.of(name, strings.ToUpper(name))
	eq := g.of("=", " = ")
	switch g.rng.IntN(11) {
	case 0:
		return kw + " " + nm + eq + v, name, "plain"
	case 1:
		return kw + " " + nm + g.of("(", " (") + v + ")", name, "call-syntax"
	case 2:
		return kw + g.of("/**/", "/* c */", " -- c\n") + nm + eq + v, name, "comment-after-keyword"
	case 3:
		return kw + " " + g.of(`"`+nm+`"`, "`"+nm+"`", "["+nm+"]") + eq + v, name, "quoted-name"
	case 4:
		return kw + " '" + nm + "'" + eq + v, name, "string-name"
	case 5:
		return kw + " " + g.of(`"main"`, "[main]", "'main'") + "." + nm + eq + v, name, "quoted-schema"
	case 6:
		return kw + " main" + g.of(" .", ". ", " . ") + nm + eq + v, name, "spaced-dot"
	case 7:
		return kw + " " + g.of("main", "MAIN", "temp") + "." + nm + eq + v, name, "schema-prefix"
	case 8:
		return g.of("/* c */", "-- c\n", "/**/ ") + kw + " " + nm + eq + v, name, "leading-comment"
	case 9:
		return g.of(";", " ; ") + kw + " " + nm + eq + v, name, "leading-semicolon"
	}
	return "\ufeff" + kw + " " + nm + eq + v, name, "leading-bom"
}

var c15sFiller = []string{"SELECT 1", "SELECT count(*) FROM t", "INSERT INTO t(v) VALUES ('x')", "UPDATE t SET v = 'y' WHERE id = 1", "SELECT 'PRAGMA journal_mode=delete'", "PRAGMA table_info(t)", "PRAGMA synchronous",
	// EXPLAIN first statements: command/sql.Process flags the whole text SqlExplain
	"EXPLAIN SELECT * FROM t", "EXPLAIN QUERY PLAN SELECT 1", "explain INSERT INTO t(v) VALUES ('e')", "EXPLAIN SELECT * FROM t", "explain query plan SELECT count(*) FROM t"}

type c15sState struct {
	Header, MainHash string
	RW, RO           string
}

func c15sObserve(s *Store) c15sState {
	var st c15sState
	if b, err := os.ReadFile(s.dbPath); err == nil && len(b) >= 20 {
		st.Header = fmt.Sprintf("%d,%d", b[18], b[19])
		sum := sha256.Sum256(b)
		st.MainHash = hex.EncodeToString(sum[:8])
	} else {
		st.Header, st.MainHash = "ERR", "ERR"
	}
	one := func(rows []*proto.QueryRows, err error) string {
		if err != nil {
			return "ERR(" + err.Error() + ")"
		}
		if len(rows) != 1 || rows[0].Error != "" || len(rows[0].Values) != 1 || len(rows[0].Values[0].Parameters) != 1 {
			if len(rows) == 1 {
				return "ERR(" + rows[0].Error + ")"
			}
			return "ERR(shape)"
		}
		p := rows[0].Values[0].Parameters[0]
		switch v := p.GetValue().(type) {
		case *proto.Parameter_I:
			return fmt.Sprint(v.I)
		case *proto.Parameter_S:
			return v.S
		}
		return fmt.Sprint(p.GetValue())
	}
	var rw, ro []string
	for _, p := range []string{"journal_mode", "wal_autocheckpoint", "synchronous", "query_only"} {
		// read-only pool
		ro = append(ro, p+"="+one(s.db.QueryStringStmt("PRAGMA "+p)))
		// read-write connection: the unified path runs a read-only statement on it
		// ("PRAGMA journal_mode" is not classified read-only; the file header covers it)
		if p == "journal_mode" {
			continue
		}
		resp, err := s.db.Request(&proto.Request{Statements: []*proto.Statement{{Sql: "PRAGMA " + p}}}, false)
		var rows []*proto.QueryRows
		if err == nil && len(resp) == 1 {
			if q := resp[0].GetQ(); q != nil {
				rows = []*proto.QueryRows{q}
			} else {
				rows = []*proto.QueryRows{{Error: resp[0].GetError()}}
			}
		}
		rw = append(rw, p+"="+one(rows, err))
	}
	st.RW, st.RO = strings.Join(rw, " "), strings.Join(ro, " ")
	return st
}

// c15sNewStore retries start-up trouble twice with a short back-off in a fresh sub-directory.
func c15sNewStore(dir string) (*Store, net.Listener, error) {
	var lastErr error
	for try := 0; try < 3; try++ {
		if try > 0 {
			time.Sleep(time.Duration(try) * 500 * time.Millisecond)
		}
		sub := filepath.Join(dir, fmt.Sprintf("try%d", try))
		if err := os.MkdirAll(sub, 0o755); err != nil {
			lastErr = err
			continue
		}
		s, ln, err := c15sNewStoreOnce(sub)
		if err == nil {
			return s, ln, nil
		}
		lastErr = err
		fmt.Println("VERIF-INFRA: store start-up attempt failed:", err)
	}
	return nil, nil, lastErr
}

func c15sNewStoreOnce(dir string) (*Store, net.Listener, error) {
	ln, err := net.Listen("tcp", "127.0.0.1:0")
	if err != nil {
		return nil, nil, err
	}
	s := New(&Config{DBConf: NewDBConfig(), Dir: dir, ID: "n1"}, &mockLayer{ln})
	if s == nil {
		ln.Close()
		return nil, nil, fmt.Errorf("store.New returned nil")
	}
	if err := s.Open(); err != nil {
		ln.Close()
		return nil, nil, err
	}
	if err := s.Bootstrap(NewServer(s.ID(), s.Addr(), true)); err != nil {
		s.Close(true)
		ln.Close()
		return nil, nil, err
	}
	if _, err := s.WaitForLeader(30 * time.Second); err != nil {
		s.Close(true)
		ln.Close()
		return nil, nil, err
	}
	return s, ln, nil
}

func TestVerif_C15_Store(t *testing.T) {
	rec := vstat.New(t, "C15", "store",
		"rapid-seeded PCG: per case one fresh single-node Store and a sequence of requests; each request is 1-2 SQL texts of 1-3 statements mixing critical PRAGMAs (5 names x 11 spelling dimensions x values) with filler statements, sent through Store.Execute, Store.Query (none/weak/strong) or Store.Request (none/weak/strong), with/without transaction; settings observed after every request; non-trivial = the request contains a critical PRAGMA; distinct by request text+endpoint+level")
	nreq := vstat.Scale(30, 60)
	rapid.Check(t, func(rt *rapid.T) {
		seeds := rapid.SliceOfN(rapid.Uint64(), 3, 3).Draw(rt, "seed")
		g := &c15sGen{rng: rand.New(rand.NewPCG(seeds[0]^(seeds[1]*0x9E3779B97F4A7C15), seeds[2]+1515))}
		dir, err := os.MkdirTemp("", "c15s")
		if err != nil {
			fmt.Println("VERIF-INFRA:", err)
			rec.Label("inconclusive:infrastructure")
			return
		}
		defer os.RemoveAll(dir)
		s, ln, err := c15sNewStore(dir)
		if err != nil {
			fmt.Printf("VERIF-INFRA: "+"single-node store did not come up: %v"+"\n", err)
			rec.Label("inconclusive:infrastructure")
			return
		}
		defer ln.Close()
		defer s.Close(true)
		ctx := context.Background()
		if _, _, err := s.Execute(ctx, executeRequestFromStrings([]string{
			"CREATE TABLE t (id INTEGER PRIMARY KEY, v TEXT)", "INSERT INTO t(v) VALUES ('a'), ('b'), ('c')"}, false, false)); err != nil {
			fmt.Printf("VERIF-INFRA: "+"setup failed: %v"+"\n", err)
			rec.Label("inconclusive:infrastructure")
			return
		}
		pristine := c15sObserve(s)
		if pristine.Header != "2,2" || pristine.RW != "wal_autocheckpoint=0 synchronous=0 query_only=0" || !strings.Contains(pristine.RO, "query_only=1") {
			rt.Fatalf("HARNESS-BUG: unexpected pristine store database state %+v", pristine)
		}
		levels := []proto.ConsistencyLevel{proto.ConsistencyLevel_NONE, proto.ConsistencyLevel_WEAK, proto.ConsistencyLevel_STRONG}
		for i := 0; i < nreq; i++ {
			// build the request: 1-2 statements (SQL text + optional parameter list), each text 1-3 SQL statements
			ntexts := 1 + g.rng.IntN(2)
			var texts []string
			var stmts []*proto.Statement
			critical, vector := "", ""
			for k := 0; k < ntexts; k++ {
				n := 1
				if g.pct(45) {
					n = 2 + g.rng.IntN(2)
				}
				var parts []string
				style := g.of("none", "none", "positional", "named") // placeholder style of the fillers in this text
				npos, named, bait := 0, false, false
				thisCritical, thisVector := "", ""
				// dedicated shape: an EXPLAIN first statement followed by a plainly spelled critical PRAGMA, the
				// whole text parseable by rqlite/sql so that command/sql.Process flags it SqlExplain
				explainShape := g.pct(15)
				if explainShape && n < 2 {
					n = 2
				}
				for j := 0; j < n; j++ {
					switch {
					case explainShape && j == 0:
						parts = append(parts, g.of("EXPLAIN SELECT * FROM t", "EXPLAIN QUERY PLAN SELECT * FROM t", "explain SELECT 1", "EXPLAIN QUERY PLAN SELECT count(*) FROM t WHERE v = 'x'"))
					case explainShape && j == 1:
						name := g.of("journal_mode", "wal_autocheckpoint", "synchronous", "query_only", "wal_checkpoint")
						v := c15sValues[name][g.rng.IntN(len(c15sValues[name]))]
						txt := "PRAGMA " + name + g.of("=", " = ") + v
						if name == "wal_checkpoint" && g.pct(50) {
							txt = "PRAGMA wal_checkpoint(" + v + ")"
						}
						parts = append(parts, txt)
						thisCritical, thisVector = name, "explain-first-statement"
					case explainShape:
						parts = append(parts, g.of("SELECT 1", "SELECT count(*) FROM t"))
					case g.pct(50):
						txt, name, vec := g.pragma()
						if j > 0 {
							vec = "later-statement"
							txt = strings.TrimPrefix(txt, "\ufeff")
						}
						if bait {
							vec = "lexical-bait"
						}
						parts = append(parts, txt)
						if thisCritical == "" {
							thisCritical, thisVector = name, vec
						}
					case style == "positional" && g.pct(60):
						parts = append(parts, g.of("INSERT INTO t(v) VALUES (?)", "SELECT ?", "UPDATE t SET v = ? WHERE id = 1", "SELECT count(*) FROM t WHERE v <> ?"))
						npos++
					case style == "named" && g.pct(60):
						parts = append(parts, g.of("INSERT INTO t(v) VALUES (:p)", "SELECT :p", "UPDATE t SET v = :p WHERE id = 1"))
						named = true
					case g.pct(35):
						parts = append(parts, c15sBait[g.rng.IntN(len(c15sBait))])
						bait = true
					default:
						parts = append(parts, c15sFiller[g.rng.IntN(len(c15sFiller))])
					}
				}
				tail := g.of("", "", ";", "; -- c", "; --'", "; /* ' */", "; SELECT ''", ";--\"", "; SELECT '")
				if explainShape {
					tail = g.of("", ";")
				}
				text := strings.Join(parts, g.of(";", "; ", ";\n")) + tail
				st := &proto.Statement{Sql: text}
				// parameters: what the placeholders need, sometimes one surplus value; sometimes a surplus
				// value on a text without any placeholder (the driver ignores surplus positional values)
				for i := 0; i < npos; i++ {
					st.Parameters = append(st.Parameters, &proto.Parameter{Value: &proto.Parameter_S{S: fmt.Sprintf("p%d", i)}})
				}
				if named {
					st.Parameters = append(st.Parameters, &proto.Parameter{Name: "p", Value: &proto.Parameter_S{S: "np"}})
				}
				if (npos > 0 && g.pct(25)) || (npos == 0 && !named && g.pct(30)) {
					st.Parameters = append(st.Parameters, &proto.Parameter{Value: &proto.Parameter_I{I: 1}})
				}
				if thisCritical != "" && len(st.Parameters) > 0 {
					thisVector = "with-parameters"
				}
				if critical == "" && thisCritical != "" {
					critical, vector = thisCritical, thisVector
				}
				texts = append(texts, fmt.Sprintf("%s {%d params}", text, len(st.Parameters)))
				stmts = append(stmts, st)
			}
			tx := g.pct(20)
			endpoint := g.of("execute", "query", "request")
			lvl := levels[g.rng.IntN(len(levels))]
			rec.Case(critical != "", fmt.Sprintf("%q|%s|%s|%v", texts, endpoint, lvl, tx))
			rec.Sample(fmt.Sprintf("%s %s tx=%v %q", endpoint, lvl, tx, texts))
			rec.Label("endpoint:" + endpoint)
			if critical != "" {
				rec.Label("critical:" + critical)
				rec.Label("vector:" + vector)
			}

			// Pre-process as rqlite's HTTP handlers do before they call the Store: command/sql.Process
			// sets SqlExplain / ForceQuery (and rewrites; /db/query only at level strong).
			if g.pct(85) {
				rec.Label("preprocessed:yes")
				rw := endpoint != "query" || lvl == proto.ConsistencyLevel_STRONG
				if err := csql.Process(stmts, rw, rw); err != nil {
					rec.Label("preprocess:rejected")
					continue
				}
				for _, st := range stmts {
					if st.SqlExplain {
						rec.Label("flag:SqlExplain")
						if critical != "" && vector != "with-parameters" {
							vector = "explain-flagged-text"
						}
					}
				}
			} else {
				rec.Label("preprocessed:no")
			}

			snaps := s.numSnapshots.Load()
			before := c15sObserve(s)
			var rerr error
			switch endpoint {
			case "execute":
				_, _, rerr = s.Execute(ctx, &proto.ExecuteRequest{Request: &proto.Request{Statements: stmts, Transaction: tx}})
			case "query":
				_, _, _, rerr = s.Query(ctx, &proto.QueryRequest{Request: &proto.Request{Statements: stmts, Transaction: tx}, Level: lvl})
			case "request":
				_, _, _, rerr = s.Request(ctx, &proto.ExecuteQueryRequest{Request: &proto.Request{Statements: stmts, Transaction: tx}, Level: lvl})
			}
			if rerr != nil && strings.Contains(rerr.Error(), "disallowed pragma") {
				rec.Label("guard:rejected")
			} else {
				rec.Label("guard:accepted")
			}
			after := c15sObserve(s)
			var effects []string
			if after.Header != pristine.Header {
				effects = append(effects, "journal_mode(file)")
			}
			if after.MainHash != before.MainHash && s.numSnapshots.Load() == snaps {
				effects = append(effects, "checkpoint")
			}
			if after.RW != pristine.RW {
				effects = append(effects, "read-write connection settings")
			}
			if after.RO != pristine.RO {
				effects = append(effects, "read-only pool settings")
			}
			if len(effects) == 0 {
				continue
			}
			if vector == "" {
				vector = "none"
			}
			sig := "C15/guard-bypass{vector=" + vector + "}"
			if rec.KnownHit(sig, "a PRAGMA written with "+vector+" passes the guard and changes a critical setting") {
				return // the node is now in a changed state; end this case
			}
			rt.Fatalf("%s", rec.Violation(sig, "Store.%s(level=%s, tx=%v) of %q (error returned: %v) changed %v:\n pristine %+v\n   before %+v\n    after %+v",
				endpoint, lvl, tx, texts, rerr, effects, pristine, before, after))
		}
	})
}

// lexically tricky statements (see the db unit): SQLite has no backslash escapes, quotes double inside
// their own kind, comment markers inside strings and quotes inside comments mean nothing.
var c15sBait = []string{`SELECT '\'`, `SELECT 'a\'`, `SELECT '\\'`, `INSERT INTO t(v) VALUES ('c:\dir\')`, `SELECT 'it''s'`, `SELECT ''''`, `SELECT '--'`, `SELECT '/*'`,
	`SELECT 1 AS "a""b"`, `SELECT 1 AS "q'r"`, `SELECT 1 AS [a'b]`, `SELECT 1 AS [\]`, "SELECT 1 AS `q'r`", `SELECT 1 /* ' */`, "SELECT 1 -- '\n", `SELECT ';'`}
