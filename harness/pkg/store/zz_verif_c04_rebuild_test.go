package store

// C04: the snapshot store plus the log always rebuilds the applied state.
//
// A rapid state machine drives one real Store: small / page-heavy write
// requests; user snapshots (the same raft.Snapshot path that threshold and
// WAL-size snapshots take), with the default or 1 trailing log; snapshots
// whose persist is NOT invoked (after a membership change raft refuses to
// persist until the FSM applied another command: join / remove of a non-voter
// at an unused loopback address); file loads; boots; explicit reaps; plain
// restarts. After every snapshot-ish step and at the end the oracle copies the
// quiescent data directory, deletes the SQLite file and the clean-snapshot
// fingerprint from the copy and opens a fresh Store on it, which therefore has
// to restore the newest snapshot and replay the log after it: its dump must
// equal the live node's dump (which must equal the model database fed through
// the raw driver) and integrity_check must say ok. Optionally a second real
// node joins at the end (log replay or snapshot install) and must converge to
// the same dump.

import (
	"context"
	"fmt"
	"os"
	"path/filepath"
	"strings"
	"testing"
	"time"

	"github.com/rqlite/rqlite/v10/internal/verif/vstat"
	"pgregory.net/rapid"
)

type c04Machine struct {
	rt       *rapid.T
	rec      *vstat.Rec
	base     string
	dir      string
	s        *Store
	model    *g8aModel
	hist     []string
	nCopy    int
	nvSeq    int
	nvs      []string // joined fake non-voters
	releases []func() // reserved addresses of the fake non-voters

	// shape of the history (for non-triviality and signatures)
	stagedRetained     bool // a snapshot left a staged WAL behind (persist skipped)
	incWhileStaged     bool // incremental snapshot persisted while an older staged WAL was retained
	fullWhileStaged    bool // full snapshot persisted while a staged WAL was retained
	incAfterFullStaged bool // ... and an incremental snapshot was persisted after that
	resetAfterStaged   bool // load/boot/restart after a retained staged WAL
	nSnapOK, nSkipped  int
	nLoads, nBoots     int
	nRestarts, nReaps  int
	nWrites, nRebuilds int
	done               bool
	loadDuringPersist  bool
	nHandSnaps         int
}

func (m *c04Machine) fail(sig, format string, args ...any) {
	msg := fmt.Sprintf(format, args...)
	m.rt.Fatalf("%s", m.rec.Violation(sig, "%s | history: %s", msg, strings.Join(m.hist, " ; ")))
}

func (m *c04Machine) sig(generic string) string {
	if m.incAfterFullStaged {
		return "C04/stale-staged-wal-shipped-after-full-snapshot"
	}
	return generic
}

const c04KnownWhat = "a staged WAL retained from a snapshot whose persist was skipped survives a later full snapshot and is shipped with the next incremental snapshot; the snapshot store can then no longer be restored"

func (m *c04Machine) staged() int {
	w, _ := m.s.StagedWALs()
	return len(w)
}

func (m *c04Machine) write(big bool) {
	var b []string
	if big {
		b = g8aBigBatch(m.rt)
	} else {
		b = g8aSmallBatch(m.rt)
	}
	if err := g8aExec(m.s, b); err != nil {
		m.fail("C04/execute-error", "execute failed: %v", err)
	}
	m.model.Exec(b)
	m.nWrites++
	tag := "W"
	if big {
		tag = "B"
	}
	m.hist = append(m.hist, tag+g8aShort(b))
}

func (m *c04Machine) snapshot(trailing uint64) {
	stagedBefore := m.staged()
	fullBefore, incBefore := m.s.numFullSnapshots, m.s.numIncSnapshots.Load()
	err := m.s.Snapshot(trailing)
	stagedAfter := m.staged()
	wasFull := m.s.numFullSnapshots > fullBefore
	wasInc := m.s.numIncSnapshots.Load() > incBefore
	kind := "none"
	if wasFull {
		kind = "full"
	} else if wasInc {
		kind = "inc"
	}
	if err == nil {
		m.nSnapOK++
		if stagedBefore > 0 && wasInc {
			m.incWhileStaged = true
		}
		if wasInc && m.fullWhileStaged {
			m.incAfterFullStaged = true
		}
		if stagedBefore > 0 && wasFull {
			m.fullWhileStaged = true
		}
		m.hist = append(m.hist, fmt.Sprintf("SNAP(trail=%d,%s,staged %d->%d)", trailing, kind, stagedBefore, stagedAfter))
	} else {
		if stagedAfter > 0 {
			m.stagedRetained = true
		}
		if kind != "none" {
			m.nSkipped++
		}
		e := err.Error()
		if len(e) > 60 {
			e = e[:60]
		}
		m.hist = append(m.hist, fmt.Sprintf("SNAP(trail=%d,%s,staged %d->%d,err=%s)", trailing, kind, stagedBefore, stagedAfter, e))
	}
}

// rebuild is the oracle.
func (m *c04Machine) rebuild(when string) {
	if m.done {
		return
	}
	if err := g8aBarrier(m.s, 20*time.Second); err != nil {
		m.rec.Label("infra:barrier")
		m.done = true
		return
	}
	live, err := g8aDumpLive(m.s)
	if err != nil {
		m.fail(m.sig("C04/live-dump-error"), "cannot dump live database (%s): %v", when, err)
	}
	want, _ := m.model.Dump()
	if live != want {
		m.fail(m.sig("C04/live-differs-from-model"), "live database differs from model (%s): %s", when, g8aFirstDiff(live, want))
	}
	m.nCopy++
	dst := filepath.Join(m.base, fmt.Sprintf("copy%d", m.nCopy))
	defer os.RemoveAll(dst)
	d, ic, openErr, infraErr := g8aRebuildFromStore(m.dir, dst, m.s.raftID)
	if infraErr != nil {
		m.rec.Label("inconclusive:rebuild-infra")
		m.done = true
		return
	}
	m.nRebuilds++
	m.hist = append(m.hist, "REBUILD")
	if openErr != nil {
		sig := m.sig("C04/rebuild-open-failed")
		if m.rec.KnownHit(sig, c04KnownWhat) {
			m.done = true
			return
		}
		m.fail(sig, "a fresh node on a copy of the data directory (no SQLite file, no fingerprint) cannot rebuild (%s): %v", when, openErr)
	}
	if d != live {
		sig := m.sig("C04/rebuild-differs")
		if m.rec.KnownHit(sig, c04KnownWhat) {
			m.done = true
			return
		}
		m.fail(sig, "database rebuilt from snapshot store + log differs from the applied state (%s): %s; live {%s} rebuilt {%s}", when, g8aFirstDiff(d, live), g8aSummary(live), g8aSummary(d))
	}
	if ic != "ok" {
		sig := m.sig("C04/rebuild-integrity")
		if m.rec.KnownHit(sig, c04KnownWhat) {
			m.done = true
			return
		}
		m.fail(sig, "integrity_check of rebuilt database (%s): %s", when, ic)
	}
}

func (m *c04Machine) restart(noSnapOnClose bool) {
	m.s.NoSnapshotOnClose = noSnapOnClose
	stagedBefore := m.staged()
	addr := m.s.Addr()
	if err := g8aClose(m.s); err != nil {
		m.fail("C04/close-error", "close failed: %v", err)
	}
	m.s.ly.Close()
	if stagedBefore > 0 {
		m.resetAfterStaged = true
	}
	s2, err := g8aNewStore(m.dir, m.s.raftID, g8aOpts{Addr: addr, ReapThreshold: 1000, Heartbeat: 250 * time.Millisecond})
	if err != nil {
		s2, err = g8aNewStore(m.dir, m.s.raftID, g8aOpts{ReapThreshold: 1000, Heartbeat: 250 * time.Millisecond})
	}
	if err != nil {
		m.rec.Label("infra:relisten")
		m.done = true
		return
	}
	m.s = s2
	m.nRestarts++
	m.hist = append(m.hist, fmt.Sprintf("RESTART(noSnapOnClose=%v)", noSnapOnClose))
	if err := s2.Open(); err != nil {
		sig := m.sig("C04/restart-open-failed")
		if m.rec.KnownHit(sig, c04KnownWhat) {
			m.done = true
			return
		}
		m.fail(sig, "restart failed: %v", err)
	}
	if err := g8aWaitLeaderSelf(s2, 30*time.Second); err != nil {
		m.rec.Label("inconclusive:no-leader-after-restart")
		m.done = true
		return
	}
	live, err := g8aDumpLive(s2)
	want, _ := m.model.Dump()
	if err != nil || live != want {
		sig := m.sig("C04/restart-differs")
		if m.rec.KnownHit(sig, c04KnownWhat) {
			m.done = true
			return
		}
		m.fail(sig, "database after restart differs from model: %v %s", err, g8aFirstDiff(live, want))
	}
}

func TestVerif_C04_Rebuild(t *testing.T) {
	rec := vstat.New(t, "C04", "rebuild",
		"rapid state machine on a real single-node Store: small/page-heavy writes, user snapshots (default or 1 trailing log), snapshots whose persist raft skips (join/remove of a non-voter at an unused address just before), snapshots taken in raft's order with a load or write applied between FSM.Snapshot and Persist, file loads, boots, explicit reaps, restarts; oracle = fresh Store on a copy of the data dir without SQLite file and fingerprint, after every snapshot-ish step and at the end; optional second node joining at the end; non-trivial = an incremental snapshot was persisted while an older staged WAL was retained, or a full snapshot/load/boot/restart happened after a retained staged WAL, or a load was applied while a snapshot was being persisted; distinct = hash of the whole history")
	rapid.Check(t, func(rt *rapid.T) { c04Case(rt, rec) })
}

func c04Case(rt *rapid.T, rec *vstat.Rec) {
	g8aNextCase()
	base, err := os.MkdirTemp("", "c04")
	if err != nil {
		rt.Skip("tempdir")
	}
	defer os.RemoveAll(base)
	m := &c04Machine{rt: rt, rec: rec, base: base, dir: filepath.Join(base, "node")}
	s, err := g8aNewStore(m.dir, "n1", g8aOpts{ReapThreshold: 1000, Heartbeat: 250 * time.Millisecond})
	if err != nil {
		rt.Skip("listen")
	}
	m.s = s
	defer func() {
		g8aCloseQuiet(m.s)
		for _, r := range m.releases {
			r()
		}
	}()
	if err := g8aOpenSingle(s, true); err != nil {
		rec.Label("infra:open-failed")
		return
	}
	m.model, err = g8aNewModel(base)
	if err != nil {
		return
	}
	defer m.model.Close()

	guard := func(f func()) func(*rapid.T) {
		return func(rt *rapid.T) {
			if m.done {
				return
			}
			m.rt = rt
			f()
		}
	}
	preWrite := func(pct int) {
		if rapid.IntRange(1, 100).Draw(m.rt, "preWrite") <= pct {
			m.write(rapid.IntRange(0, 2).Draw(m.rt, "big") == 0)
		}
	}
	snapshotStep := guard(func() {
		preWrite(65)
		tr := uint64(rapid.SampledFrom([]int{0, 0, 1, 3}).Draw(m.rt, "trailing"))
		before := m.nSnapOK + m.nSkipped
		m.snapshot(tr)
		if m.nSnapOK+m.nSkipped > before {
			m.rebuild("after snapshot")
		}
	})
	membershipStep := guard(func() {
		// a membership change makes raft skip the persist of the next
		// snapshot until another command has been applied
		preWrite(80)
		if len(m.nvs) > 0 && rapid.Bool().Draw(m.rt, "remove") {
			id := m.nvs[len(m.nvs)-1]
			m.nvs = m.nvs[:len(m.nvs)-1]
			if err := m.s.Remove(context.Background(), removeNodeRequest(id)); err != nil {
				m.fail("C04/remove-error", "remove of non-voter failed: %v", err)
			}
			m.hist = append(m.hist, "REMOVE("+id+")")
		} else {
			m.nvSeq++
			id := fmt.Sprintf("nv%d", m.nvSeq)
			nvAddr, release := g8aReserveAddr()
			m.releases = append(m.releases, release)
			if err := m.s.Join(joinRequest(id, nvAddr, false)); err != nil {
				m.fail("C04/join-error", "join of non-voter failed: %v", err)
			}
			m.nvs = append(m.nvs, id)
			m.hist = append(m.hist, "JOIN-NONVOTER("+id+")")
		}
		before := m.nSnapOK + m.nSkipped
		m.snapshot(0)
		if m.nSnapOK+m.nSkipped > before {
			m.rebuild("after snapshot following a membership change")
		}
	})
	loadStep := guard(func() {
		spec := g8aGenLoadSpec(m.rt)
		p := filepath.Join(base, "load.db")
		if err := g8aBuildDBFile(spec, p); err != nil {
			m.rt.Skip("build load file")
		}
		stagedBefore := m.staged()
		if err := g8aLoadFile(m.s, p); err != nil {
			m.fail("C04/load-error", "load of a valid database failed: %v (%s)", err, spec)
		}
		if err := m.model.ReplaceWithFile(p); err != nil {
			m.rt.Skip("model")
		}
		if stagedBefore > 0 {
			m.resetAfterStaged = true
		}
		m.nLoads++
		m.hist = append(m.hist, "LOAD"+spec.String())
		if rapid.IntRange(0, 2).Draw(m.rt, "rebuildAfterLoad") == 0 {
			m.rebuild("after load")
		}
	})
	loadOnly := func() {
		spec := g8aGenLoadSpec(m.rt)
		p := filepath.Join(base, "load.db")
		if err := g8aBuildDBFile(spec, p); err != nil {
			m.rt.Skip("build load file")
		}
		stagedBefore := m.staged()
		if err := g8aLoadFile(m.s, p); err != nil {
			m.fail("C04/load-error", "load of a valid database failed: %v (%s)", err, spec)
		}
		if err := m.model.ReplaceWithFile(p); err != nil {
			m.rt.Skip("model")
		}
		if stagedBefore > 0 {
			m.resetAfterStaged = true
		}
		m.nLoads++
		m.hist = append(m.hist, "LOAD"+spec.String())
	}
	// A snapshot in raft's own order (FSM.Snapshot on the FSM side; then, on
	// raft's snapshot goroutine, Create sink / Persist / Close / Release) with a
	// load or a write applied by the FSM while the snapshot is still being
	// persisted - what happens when requests keep arriving during a long
	// Persist. Index, term and configuration are those at FSM.Snapshot time, as
	// raft takes them. (A boot is not placed in between: it takes a raft
	// snapshot itself, and raft serialises snapshots.)
	hsnapStep := guard(func() {
		if rapid.Bool().Draw(m.rt, "loadFirst") {
			loadOnly() // makes the snapshot that is about to be persisted a full one
		} else {
			m.write(rapid.Bool().Draw(m.rt, "big"))
		}
		if err := g8aBarrier(m.s, 20*time.Second); err != nil {
			return
		}
		idx, term := m.s.fsmIdx.Load(), m.s.fsmTerm.Load()
		cf := m.s.raft.GetConfiguration()
		cfIdx := g8aConfigIndex(m.s)
		if cf.Error() != nil || cfIdx == 0 || idx == 0 || idx < cfIdx {
			return // raft itself would refuse to persist now
		}
		stagedBefore := m.staged()
		fullBefore := m.s.numFullSnapshots
		f, err := NewFSM(m.s).Snapshot()
		if err != nil {
			m.hist = append(m.hist, "HSNAP(fsm err)")
			return
		}
		kind := "inc"
		if m.s.numFullSnapshots > fullBefore {
			kind = "full"
		}
		what := rapid.SampledFrom([]string{"load", "load", "write", "nothing"}).Draw(m.rt, "duringPersist")
		m.hist = append(m.hist, "HSNAP-BEGIN("+kind+")")
		switch what {
		case "load":
			loadOnly()
		case "write":
			m.write(false)
		}
		sink, err := m.s.snapshotStore.Create(1, idx, term, cf.Configuration(), cfIdx, m.s.raftTn)
		if err != nil {
			f.Release()
			m.hist = append(m.hist, "HSNAP(create err)")
			return
		}
		if err := f.Persist(sink); err != nil {
			sink.Cancel()
			m.hist = append(m.hist, "HSNAP-END(persist err)")
		} else {
			sink.Close()
			m.nSnapOK++
			m.nHandSnaps++
			if what == "load" {
				m.loadDuringPersist = true
			}
			if stagedBefore > 0 && kind == "inc" {
				m.incWhileStaged = true
			}
			if stagedBefore > 0 && kind == "full" {
				m.fullWhileStaged = true
			}
			m.hist = append(m.hist, fmt.Sprintf("HSNAP-END(ok,during=%s,staged %d->%d)", what, stagedBefore, m.staged()))
		}
		f.Release()
		// follow-up: write, ordinary snapshot, rebuild from the store
		m.write(rapid.Bool().Draw(m.rt, "big"))
		m.snapshot(uint64(rapid.SampledFrom([]int{0, 1}).Draw(m.rt, "trailing")))
		m.rebuild("after a snapshot with a " + what + " applied during persist, write, snapshot")
	})
	cycleStep := guard(func() {
		// load, full snapshot, write, incremental snapshot: one rebuild at the end
		spec := g8aGenLoadSpec(m.rt)
		p := filepath.Join(base, "load.db")
		if err := g8aBuildDBFile(spec, p); err != nil {
			m.rt.Skip("build load file")
		}
		stagedBefore := m.staged()
		if err := g8aLoadFile(m.s, p); err != nil {
			m.fail("C04/load-error", "load of a valid database failed: %v (%s)", err, spec)
		}
		if err := m.model.ReplaceWithFile(p); err != nil {
			m.rt.Skip("model")
		}
		if stagedBefore > 0 {
			m.resetAfterStaged = true
		}
		m.nLoads++
		m.hist = append(m.hist, "LOAD"+spec.String())
		m.snapshot(0)
		m.write(rapid.Bool().Draw(m.rt, "big"))
		m.snapshot(uint64(rapid.SampledFrom([]int{0, 1}).Draw(m.rt, "trailing")))
		m.rebuild("after load, snapshot, write, snapshot")
	})
	rt.Repeat(map[string]func(*rapid.T){
		"load-snap-write-snap":                 cycleStep,
		"snapshot-with-apply-during-persist":   hsnapStep,
		"snapshot-with-apply-during-persist-2": hsnapStep,
		"write-small":                          guard(func() { m.write(false) }),
		"write-small-2":                        guard(func() { m.write(false) }),
		"write-big":                            guard(func() { m.write(true) }),
		"snapshot":                             snapshotStep,
		"snapshot-2":                           snapshotStep,
		"snapshot-3":                           snapshotStep,
		"membership-then-snapshot":             membershipStep,
		"membership-then-snapshot-2":           membershipStep,
		"load":                                 loadStep,
		"load-2":                               loadStep,
		"boot": guard(func() {
			if len(m.nvs) > 0 {
				return // boot is a single-node operation
			}
			spec := g8aGenLoadSpec(m.rt)
			p := filepath.Join(base, "boot.db")
			if err := g8aBuildDBFile(spec, p); err != nil {
				m.rt.Skip("build boot file")
			}
			f, err := os.Open(p)
			if err != nil {
				m.rt.Skip("open boot file")
			}
			stagedBefore := m.staged()
			_, err = m.s.ReadFrom(f)
			f.Close()
			if err != nil {
				m.fail(m.sig("C04/boot-error"), "boot with a valid database failed: %v (%s)", err, spec)
			}
			if err := m.model.ReplaceWithFile(p); err != nil {
				m.rt.Skip("model")
			}
			if stagedBefore > 0 {
				m.resetAfterStaged = true
				m.fullWhileStaged = true // boot takes a full snapshot itself
			}
			m.nBoots++
			m.hist = append(m.hist, fmt.Sprintf("BOOT%s(staged %d->%d)", spec, stagedBefore, m.staged()))
			m.rebuild("after boot")
		}),
		"reap": guard(func() {
			n, w, err := m.s.Reap()
			m.nReaps++
			if err != nil && strings.Contains(err.Error(), "MSRW conflict") {
				// by design a reap gives up when a snapshot stream is open; the
				// leader may just be offering a snapshot to a fake non-voter
				m.hist = append(m.hist, "REAP(busy)")
				return
			}
			if err != nil {
				m.hist = append(m.hist, "REAP(err="+err.Error()+")")
				m.fail(m.sig("C04/reap-error"), "explicit reap failed: %v", err)
			}
			m.hist = append(m.hist, fmt.Sprintf("REAP(%d,%d)", n, w))
			m.rebuild("after reap")
		}),
		"restart": guard(func() {
			m.restart(rapid.Bool().Draw(m.rt, "noSnapshotOnClose"))
			if !m.done {
				m.rebuild("after restart")
			}
		}),
	})

	if !m.done {
		m.rt = rt
		m.rebuild("at the end")
	}
	joinKind := "none"
	if !m.done && rapid.IntRange(0, 2).Draw(rt, "joinAtEnd") == 0 {
		joinKind = m.joinSecond(rapid.Bool().Draw(rt, "voter"))
	}

	nontrivial := m.incWhileStaged || (m.stagedRetained && (m.fullWhileStaged || m.resetAfterStaged)) || m.loadDuringPersist
	rec.Case(nontrivial, strings.Join(m.hist, ";"))
	if m.stagedRetained {
		rec.Label("staged-wal-retained(persist-skipped)")
	}
	if m.incWhileStaged {
		rec.Label("incremental-with-older-staged-wal")
	}
	if m.fullWhileStaged {
		rec.Label("full-snapshot-while-staged-wal-retained")
	}
	if m.incAfterFullStaged {
		rec.Label("incremental-after-full-while-staged")
	}
	if m.resetAfterStaged {
		rec.Label("load/boot/restart-after-staged-wal")
	}
	if m.nLoads > 0 {
		rec.Label("has-load")
	}
	if m.nBoots > 0 {
		rec.Label("has-boot")
	}
	if m.nReaps > 0 {
		rec.Label("has-reap")
	}
	if m.nRestarts > 0 {
		rec.Label("has-restart")
	}
	if m.nSkipped > 0 {
		rec.Label("has-skipped-persist")
	}
	if m.nHandSnaps > 0 {
		rec.Label("has-apply-during-persist")
	}
	if m.loadDuringPersist {
		rec.Label("load-applied-during-snapshot-persist")
	}
	rec.Label("join-at-end:" + joinKind)
	rec.LabelN("rebuilds", m.nRebuilds)
	rec.LabelN("snapshots-ok", m.nSnapOK)
	rec.Sample(strings.Join(m.hist, " ; "))
}

// joinSecond lets a second real node join the cluster; it receives the state
// through log replay or a snapshot install and must converge to the leader's
// dump.
func (m *c04Machine) joinSecond(voter bool) string {
	dir2 := filepath.Join(m.base, "node2")
	s2, err := g8aNewStore(dir2, "n2", g8aOpts{ReapThreshold: 1000, Heartbeat: 250 * time.Millisecond, NoSnapshotOnClose: true})
	if err != nil {
		return "infra"
	}
	defer g8aCloseQuiet(s2)
	if err := s2.Open(); err != nil {
		return "infra"
	}
	restoresBefore := stats.Get(numRestores).String()
	if err := m.s.Join(joinRequest("n2", s2.Addr(), voter)); err != nil {
		m.hist = append(m.hist, "JOIN-NODE2(err)")
		return "join-error"
	}
	m.hist = append(m.hist, fmt.Sprintf("JOIN-NODE2(voter=%v)", voter))
	// a command after the membership change, so that everything is applied
	b := g8aSmallBatch(m.rt)
	if err := g8aExec(m.s, b); err != nil {
		m.hist = append(m.hist, "W(err)")
		return "write-error"
	}
	m.model.Exec(b)
	m.hist = append(m.hist, "W"+g8aShort(b))
	if !g8aWaitApplied(m.s, s2, time.Now().Add(40*time.Second)) {
		m.rec.Label("inconclusive:node2-did-not-catch-up")
		return "timeout"
	}
	kind := "log-replay"
	if stats.Get(numRestores).String() != restoresBefore {
		kind = "snapshot-install"
	}
	want, _ := m.model.Dump()
	d1, err1 := g8aDumpLive(m.s)
	d2, err2 := g8aDumpLive(s2)
	if err1 != nil || d1 != want {
		m.fail(m.sig("C04/live-differs-from-model"), "leader differs from model after join: %v %s", err1, g8aFirstDiff(d1, want))
	}
	if err2 != nil || d2 != want {
		sig := m.sig("C04/joined-node-differs")
		if m.rec.KnownHit(sig, c04KnownWhat) {
			return kind
		}
		m.fail(sig, "node joined via %s differs from the leader: %v %s; leader {%s} joiner {%s}", kind, err2, g8aFirstDiff(d2, want), g8aSummary(want), g8aSummary(d2))
	}
	return kind
}
