package store

// C29 (stateful unit): a sequence of log entries decoded by ONE long-lived
// CommandProcessor, as the FSM uses it. Every entry must be applied as the
// request that was encoded, independent of the entries before it.
//
// Process hands the decoded request straight to the database, so the decoded
// flags are observed through their documented effect on a real SwappableDB:
//   write entries (Execute / ExecuteQuery): [INSERT a, INSERT a again (fails),
//     INSERT b]; transaction => nothing kept, 2 results; rollback-on-error
//     (no transaction) => a kept, 2 results; neither => a and b kept, 3 results
//   read entries (Query): SELECT id FROM t LIMIT 1; qualify-columns => the
//     column is reported as "t.id", otherwise "id"
// The expected outcome is computed from the flags of the encoded request only.

import (
	"fmt"
	"io"
	"log"
	"os"
	"path/filepath"
	"testing"

	"github.com/rqlite/rqlite/v10/command"
	"github.com/rqlite/rqlite/v10/command/chunking"
	"github.com/rqlite/rqlite/v10/command/proto"
	sql "github.com/rqlite/rqlite/v10/db"
	"github.com/rqlite/rqlite/v10/internal/verif/vsql"
	"github.com/rqlite/rqlite/v10/internal/verif/vstat"
	"pgregory.net/rapid"
)

func TestVerif_C29_Processor(t *testing.T) {
	rec := vstat.New(t, "C29", "processor",
		"rapid: sequences of 3-10 marshalled Query/Execute/ExecuteQuery log entries (flags transaction, rollback-on-error, qualify-columns, db-timeout drawn independently, all-default requests frequent; compressed and plain) applied by one CommandProcessor to a real SwappableDB; each entry's effect must be the one its own flags imply; non-trivial = an all-default entry follows an entry of the same type with non-default flags; distinct by the sequence of types and flags")
	rapid.Check(t, func(rt *rapid.T) {
		dir, err := os.MkdirTemp("", "c29proc")
		if err != nil {
			rec.Label("inconclusive:infrastructure")
			return
		}
		defer os.RemoveAll(dir)
		sdb, err := sql.OpenSwappable(filepath.Join(dir, "db.sqlite"), nil, false, true, 4)
		if err != nil {
			rec.Label("inconclusive:infrastructure")
			return
		}
		defer sdb.Close()
		if rs, err := sdb.Execute(&proto.Request{Statements: []*proto.Statement{
			{Sql: "CREATE TABLE t (id INTEGER PRIMARY KEY, v TEXT)"}, {Sql: "INSERT INTO t(id, v) VALUES(1, 'seed')"}}}, false); err != nil || len(rs) != 2 {
			rec.Label("inconclusive:infrastructure")
			return
		}
		dm, err := chunking.NewDechunkerManager(dir)
		if err != nil {
			rec.Label("inconclusive:infrastructure")
			return
		}
		defer dm.Close()
		cp := NewCommandProcessor(log.New(io.Discard, "", 0), dm)
		raw, err := vsql.Open(filepath.Join(dir, "db.sqlite"))
		if err != nil {
			rec.Label("inconclusive:infrastructure")
			return
		}
		defer raw.Close()
		has := func(id int) bool {
			var n int
			raw.QueryRow("SELECT count(*) FROM t WHERE id=?", id).Scan(&n)
			return n == 1
		}

		n := rapid.IntRange(3, 10).Draw(rt, "n")
		lastNonDefault := map[string]bool{}
		nontrivial := false
		canon := ""
		type step struct {
			kind          string
			tx, roe, qual bool
			timeout       int64
			pad           bool
		}
		var steps []step
		for i := 0; i < n; i++ {
			st := step{kind: rapid.SampledFrom([]string{"execute", "execute-query", "query"}).Draw(rt, "kind")}
			if rapid.IntRange(0, 2).Draw(rt, "default") > 0 {
				st.tx = rapid.Bool().Draw(rt, "tx")
				st.roe = rapid.Bool().Draw(rt, "roe")
				st.qual = rapid.Bool().Draw(rt, "qual")
				st.timeout = rapid.SampledFrom([]int64{0, 0, 30e9}).Draw(rt, "timeout")
			}
			st.pad = rapid.IntRange(0, 4).Draw(rt, "pad") == 0
			isDefault := !st.tx && !st.roe && !st.qual && st.timeout == 0
			if isDefault && lastNonDefault[st.kind] {
				nontrivial = true
			}
			lastNonDefault[st.kind] = !isDefault
			steps = append(steps, st)
			canon += fmt.Sprintf("%s:%v%v%v%d%v ", st.kind, st.tx, st.roe, st.qual, st.timeout, st.pad)
		}
		rec.Case(nontrivial, canon)
		rec.Sample(canon)
		if nontrivial {
			rec.Label("default-after-nondefault-same-type")
		}
		m := command.NewRequestMarshaler()
		for i, st := range steps {
			a, b := 100+3*i, 101+3*i
			req := &proto.Request{Transaction: st.tx, RollbackOnError: st.roe, QualifyColumns: st.qual, DbTimeout: st.timeout}
			pad := ""
			if st.pad {
				pad = fmt.Sprintf(" -- %05000d", i) // long statement: entry is stored compressed
			}
			var msg command.Requester
			var typ proto.Command_Type
			if st.kind == "query" {
				req.Statements = []*proto.Statement{{Sql: "SELECT id FROM t ORDER BY id LIMIT 1" + pad}}
				msg, typ = &proto.QueryRequest{Request: req}, proto.Command_COMMAND_TYPE_QUERY
			} else {
				req.Statements = []*proto.Statement{
					{Sql: fmt.Sprintf("INSERT INTO t(id, v) VALUES(%d, 'a')%s", a, pad)},
					{Sql: fmt.Sprintf("INSERT INTO t(id, v) VALUES(%d, 'dup')", a)},
					{Sql: fmt.Sprintf("INSERT INTO t(id, v) VALUES(%d, 'b')", b)},
				}
				if st.kind == "execute" {
					msg, typ = &proto.ExecuteRequest{Request: req}, proto.Command_COMMAND_TYPE_EXECUTE
				} else {
					msg, typ = &proto.ExecuteQueryRequest{Request: req}, proto.Command_COMMAND_TYPE_EXECUTE_QUERY
				}
			}
			sub, compressed, err := m.Marshal(msg)
			if err != nil {
				rec.Label("inconclusive:infrastructure")
				return
			}
			entry, err := command.Marshal(&proto.Command{Type: typ, SubCommand: sub, Compressed: compressed})
			if err != nil {
				rec.Label("inconclusive:infrastructure")
				return
			}
			_, _, r := cp.Process(entry, sdb)
			fail := func(format string, args ...any) {
				rt.Fatalf("%s", rec.Violation("C29/entry-applied-with-other-flags", "entry %d (%s tx=%v roe=%v qualify=%v): %s ;; sequence: %s", i, st.kind, st.tx, st.roe, st.qual, fmt.Sprintf(format, args...), canon))
			}
			if st.kind == "query" {
				qr, ok := r.(*fsmQueryResponse)
				if !ok || qr.error != nil || len(qr.rows) != 1 || len(qr.rows[0].Columns) != 1 {
					fail("unexpected query response %#v", r)
				}
				want := "id"
				if st.qual {
					want = "t.id"
				}
				if got := qr.rows[0].Columns[0]; got != want {
					fail("column reported as %q, want %q", got, want)
				}
				continue
			}
			er, ok := r.(*fsmExecuteQueryResponse)
			if !ok {
				fail("unexpected response type %T", r)
			}
			wantA, wantB, wantN := true, true, 3
			switch {
			case st.tx:
				wantA, wantB, wantN = false, false, 2
			case st.roe:
				wantA, wantB, wantN = true, false, 2
			}
			if len(er.results) != wantN {
				fail("%d results, want %d", len(er.results), wantN)
			}
			if has(a) != wantA || has(b) != wantB {
				fail("rows kept: a=%v b=%v, want a=%v b=%v", has(a), has(b), wantA, wantB)
			}
		}
	})
}
