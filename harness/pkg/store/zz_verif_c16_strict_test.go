package store

// C16, strict-mode staleness on a live cluster (white-box: needs the follower's
// FSM index and its received-command index to establish the premise).
//
// "A 'none' read with a freshness bound is refused ... in strict mode when [the
// node] is behind and its last applied entry was appended more than the bound
// before it was applied."
//
// Shape: leader + one follower (voter or non-voter). After a promptly applied
// write, a generated sequence of 2-4 log entries is appended back to back on the
// leader: slow STRONG reads, slow read-only STRONG requests (execute-query
// entries that do not mutate), slow writes, and NOOPs. "Slow" = a recursive CTE
// calibrated to take >= 3.5x the freshness bound, so entries reach the follower
// at once but are applied seconds apart. While the follower works through them,
// the harness repeatedly issues a strict and a non-strict none read with the
// bound on the follower and records the follower's FSM index before and after.
//
// Oracle, judged per observation once the kind of every log index is known:
// if the FSM index did not move during the observation, a later command entry
// had already been received (node is behind), the last applied entry was seen
// applied >= 2x the bound after it was issued (true append->apply lag > bound
// with a full bound of slack), and the non-strict read was served (leader
// contact fresh), then the strict read must have been refused with
// ErrStaleRead. Observations that miss the premise are counted as inconclusive.

import (
	"context"
	"errors"
	"fmt"
	"os"
	"strings"
	"sync"
	"testing"
	"time"

	"github.com/rqlite/rqlite/v10/command/proto"
	"github.com/rqlite/rqlite/v10/internal/verif/vstat"
	"pgregory.net/rapid"
)

var c16sQuiet sync.Once

func c16sReq(sql string) *proto.Request {
	return &proto.Request{Statements: []*proto.Statement{{Sql: sql}}}
}

func c16sSlowSQL(n int) string {
	return fmt.Sprintf(`WITH RECURSIVE c(x) AS (SELECT 1 UNION ALL SELECT x+1 FROM c WHERE x < %d) SELECT count(*) FROM c`, n)
}

type c16sCase struct {
	F        time.Duration
	Kinds    []string // SR slow strong read | SQ slow read-only request | SW slow write | NP noop
	NonVoter bool
}

func (c c16sCase) String() string {
	return fmt.Sprintf("f=%v follower-nonvoter=%v entries=%s", c.F, c.NonVoter, strings.Join(c.Kinds, ","))
}

type c16sObs struct {
	v1, v2, cci uint64
	strictErr   error
	plainErr    error
}

var (
	c16sRateOnce sync.Once
	c16sRate     float64 // CTE steps per second on this machine, measured once
)

func TestVerif_C16_StrictLive(t *testing.T) {
	c16sQuiet.Do(func() {
		if os.Getenv("VERIF_VNODE_LOG") == "" {
			if f, err := os.OpenFile(os.DevNull, os.O_WRONLY, 0); err == nil {
				os.Stderr = f
			}
		}
	})
	rec := vstat.New(t, "C16", "strictlive",
		"rapid: freshness bound 400|700 ms, follower voter|non-voter, 2-4 back-to-back log entries from slow STRONG read / slow read-only STRONG request / slow write / noop (first and last slow); strict+non-strict none reads on the follower while it works through them; "+
			"non-trivial = at least one observation met the premise (behind, last applied entry late by >= 2x bound, non-strict read served); distinct = the tuple")
	rapid.Check(t, func(rt *rapid.T) {
		c := c16sCase{F: []time.Duration{400 * time.Millisecond, 700 * time.Millisecond}[rapid.IntRange(0, 1).Draw(rt, "f")], NonVoter: rapid.Bool().Draw(rt, "nonvoter")}
		n := rapid.IntRange(2, 4).Draw(rt, "n")
		for i := 0; i < n; i++ {
			k := []string{"SR", "SQ", "SW", "NP", "SR"}[rapid.IntRange(0, 4).Draw(rt, "kind")]
			if (i == 0 || i == n-1) && k == "NP" {
				k = "SQ"
			}
			c.Kinds = append(c.Kinds, k)
		}
		dir, err := os.MkdirTemp("", "c16s-")
		if err != nil {
			rec.Label("inconclusive:tempdir")
			return
		}
		defer os.RemoveAll(dir)
		s0, ln0 := mustNewStoreAtPathsLn("c16s-0", dir+"/0", false)
		defer ln0.Close()
		s1, ln1 := mustNewStoreAtPathsLn("c16s-1", dir+"/1", false)
		defer ln1.Close()
		for _, s := range []*Store{s0, s1} {
			s.RaftLogLevel = "OFF"
			s.NoSnapshotOnClose = true
			s.ApplyTimeout = 2 * time.Minute
		}
		if err := s0.Open(); err != nil {
			rec.Label("inconclusive:open")
			return
		}
		defer s0.Close(true)
		if err := s1.Open(); err != nil {
			rec.Label("inconclusive:open")
			return
		}
		defer s1.Close(true)
		if err := s0.Bootstrap(NewServer(s0.ID(), s0.Addr(), true)); err != nil {
			rec.Label("inconclusive:bootstrap")
			return
		}
		if _, err := s0.WaitForLeader(20 * time.Second); err != nil {
			rec.Label("inconclusive:no-leader")
			return
		}
		if err := s0.Join(&proto.JoinRequest{Id: s1.ID(), Address: s1.Addr(), Voter: !c.NonVoter}); err != nil {
			rec.Label("inconclusive:join")
			return
		}
		if _, err := s1.WaitForLeader(20 * time.Second); err != nil {
			rec.Label("inconclusive:follower-no-leader")
			return
		}
		ctx := context.Background()
		_, base, err := s0.Execute(ctx, &proto.ExecuteRequest{Request: &proto.Request{Statements: []*proto.Statement{
			{Sql: `CREATE TABLE foo (id INTEGER NOT NULL PRIMARY KEY, name TEXT)`}, {Sql: `INSERT INTO foo(id, name) VALUES(1, 'fiona')`}}}})
		if err != nil {
			rec.Label("inconclusive:setup")
			return
		}
		deadline := time.Now().Add(20 * time.Second)
		for !(s1.fsmIdx.Load() == base && s1.raftTn.CommandCommitIndex() == base) {
			if time.Now().After(deadline) {
				rec.Label("inconclusive:follower-not-caught-up")
				return
			}
			time.Sleep(5 * time.Millisecond)
		}
		noneRead := func(strict bool) error {
			qr := &proto.QueryRequest{Request: c16sReq("SELECT * FROM foo"), Level: proto.ConsistencyLevel_NONE, Freshness: c.F.Nanoseconds(), FreshnessStrict: strict}
			_, _, _, err := s1.Query(ctx, qr)
			return err
		}
		if err := noneRead(true); err != nil {
			// caught up and in contact: refusing would be wrong, but that is not this sub-check's subject
			rec.Label("inconclusive:strict-read-refused-when-caught-up")
			return
		}
		c16sRateOnce.Do(func() {
			const probe = 2000000
			st := time.Now()
			s1.Query(ctx, &proto.QueryRequest{Request: c16sReq(c16sSlowSQL(probe)), Level: proto.ConsistencyLevel_NONE})
			c16sRate = float64(probe) / time.Since(st).Seconds()
		})
		steps := int(c16sRate * (3.5 * c.F.Seconds()))
		if steps < 100000 {
			steps = 100000
		}

		// append the entries back to back
		nE := len(c.Kinds)
		issued := make([]time.Time, nE+1) // by offset from base (1..nE)
		gotIdx := make([]uint64, nE+1)
		var wg sync.WaitGroup
		for i, k := range c.Kinds {
			off := i + 1
			issued[off] = time.Now()
			wg.Add(1)
			go func(off int, k string) {
				defer wg.Done()
				switch k {
				case "SR":
					_, _, idx, err := s0.Query(ctx, &proto.QueryRequest{Request: c16sReq(c16sSlowSQL(steps)), Level: proto.ConsistencyLevel_STRONG})
					if err == nil {
						gotIdx[off] = idx
					}
				case "SQ":
					_, _, idx, err := s0.Request(ctx, &proto.ExecuteQueryRequest{Request: c16sReq(c16sSlowSQL(steps)), Level: proto.ConsistencyLevel_STRONG})
					if err == nil {
						gotIdx[off] = idx
					}
				case "SW":
					_, idx, err := s0.Execute(ctx, &proto.ExecuteRequest{Request: c16sReq(fmt.Sprintf(`INSERT INTO foo(id, name) SELECT %d, (%s)`, 100+off, c16sSlowSQL(steps)))})
					if err == nil {
						gotIdx[off] = idx
					}
				case "NP":
					if f, err := s0.Noop("c16s"); err == nil && f.Error() == nil {
						gotIdx[off] = f.Index()
					}
				}
			}(off, k)
			// next entry only after this one is in the leader's log (keeps log order = issue order)
			dl := time.Now().Add(20 * time.Second)
			for s0.raft.LastIndex() < base+uint64(off) && time.Now().Before(dl) {
				time.Sleep(time.Millisecond)
			}
		}
		// observe the follower while it works through them
		firstSeen := map[uint64]time.Time{}
		var obs []c16sObs
		last := base + uint64(nE)
		dl := time.Now().Add(3 * time.Minute)
		for time.Now().Before(dl) {
			v1 := s1.fsmIdx.Load()
			now := time.Now()
			for v := base + 1; v <= v1; v++ {
				if _, ok := firstSeen[v]; !ok {
					firstSeen[v] = now
				}
			}
			if v1 >= last {
				break
			}
			if v1 > base {
				cci := s1.raftTn.CommandCommitIndex()
				se := noneRead(true)
				pe := noneRead(false)
				obs = append(obs, c16sObs{v1: v1, v2: s1.fsmIdx.Load(), cci: cci, strictErr: se, plainErr: pe})
			}
			time.Sleep(15 * time.Millisecond)
		}
		wg.Wait()
		for off := 1; off <= nE; off++ {
			if gotIdx[off] != base+uint64(off) {
				rec.Label("inconclusive:entry-index-unexpected")
				rec.Case(false, c.String())
				return
			}
		}
		premise := 0
		for _, o := range obs {
			off := int(o.v1 - base)
			kind := c.Kinds[off-1]
			lag := firstSeen[o.v1].Sub(issued[off])
			switch {
			case o.v1 != o.v2:
				rec.Label("obs:inconclusive:fsm-moved-during-observation")
			case o.cci <= o.v1:
				rec.Label("obs:inconclusive:not-behind")
			case lag < 2*c.F:
				rec.Label("obs:inconclusive:last-applied-entry-not-late-enough")
			case o.plainErr != nil:
				rec.Label("obs:inconclusive:non-strict-read-refused")
			default:
				premise++
				mut := "non-mutating"
				if kind == "SW" {
					mut = "mutating"
				}
				rec.Label("obs:premise:last-applied=" + kind)
				if !errors.Is(o.strictErr, ErrStaleRead) {
					sig := "C16/strict-none-served-behind-late-" + mut + "-entry"
					msg := fmt.Sprintf("strict none read with freshness %v on the follower returned err=%v (want ErrStaleRead): FSM index %d (entry kind %s, seen applied %v after it was issued), newest received command index %d, non-strict read served; case %s",
						c.F, o.strictErr, o.v1, kind, lag.Round(time.Millisecond), o.cci, c)
					if !rec.KnownHit(sig, msg) {
						rt.Fatalf("%s", rec.Violation(sig, "%s", msg))
					}
				}
			}
		}
		rec.Case(premise > 0, c.String())
		rec.Sample(fmt.Sprintf("%s steps=%d observations=%d premise=%d", c, steps, len(obs), premise))
	})
}
