package store

// C31, unit "startup": the start-up integrity check of the fast restart path
// ("check-clean-snapshot") holds the snapshot gate; closing the node while or
// after it runs must wait for it, proceed promptly once it has finished and
// succeed.
//
// Generator: a store is filled (generated size), closed with a snapshot so that
// a clean-snapshot fingerprint exists, optionally the fingerprint is rewritten
// the way an older release wrote it (no crc32 field), the store is reopened on
// the same directory (fast path) and Close(wait) is called at a generated
// offset after Open returned (or after the node became leader).
// Oracle: the check of these databases (<= ~1 MB) reads the file once; it is
// over long before ten seconds. So Close must return nil, and it must return
// within c31Slack after the later of (close call, the moment the gate was seen
// released). A gate that is still held 5 s after Open is reported as well:
// the operation it stands for has long finished.

import (
	"encoding/json"
	"fmt"
	"os"
	"sync/atomic"
	"testing"
	"time"

	"github.com/rqlite/rqlite/v10/internal/verif/vstat"
	"pgregory.net/rapid"
)

type c31sCase struct {
	Rows        int
	OldMarker   bool
	OffsetMs    int
	AfterLead   bool
	Wait        bool
	SnapOnClose bool
}

func (c c31sCase) String() string {
	return fmt.Sprintf("rows=%d oldMarker=%v offset=%dms afterLeader=%v wait=%v snapOnClose=%v", c.Rows, c.OldMarker, c.OffsetMs, c.AfterLead, c.Wait, c.SnapOnClose)
}

func TestVerif_C31_Startup(t *testing.T) {
	rec := vstat.New(t, "C31", "startup",
		"store filled with {5,500,4000} rows, closed with a snapshot, reopened through the fast restart path with the clean-snapshot fingerprint as written (with CRC32) or rewritten without the crc32 field (older release); Close(wait) at offset 0..40 ms after Open or after leadership, snapshot-on-close on/off; non-trivial = the fast path was taken (start-up check launched); distinct by all parameters")
	rapid.Check(t, func(rt *rapid.T) {
		defer g8bRecoverInfra(rec, t)
		c := c31sCase{
			Rows:        rapid.SampledFrom([]int{5, 500, 4000}).Draw(rt, "rows"),
			OldMarker:   rapid.Bool().Draw(rt, "oldMarker"),
			OffsetMs:    rapid.IntRange(0, 40).Draw(rt, "offsetMs"),
			AfterLead:   rapid.Bool().Draw(rt, "afterLeader"),
			Wait:        rapid.Bool().Draw(rt, "wait"),
			SnapOnClose: rapid.Bool().Draw(rt, "snapOnClose"),
		}
		dir, err := os.MkdirTemp("", "c31s-")
		if err != nil {
			g8bInfra("tempdir")
		}
		defer os.RemoveAll(dir)
		n, err := g8bOpenSingle("n1", dir, nil)
		if err != nil {
			t.Logf("infrastructure: %v", err)
			g8bInfra("store did not come up")
		}
		stmts := []string{"CREATE TABLE t(id INTEGER PRIMARY KEY, v TEXT)"}
		for i := 0; i < c.Rows; i += 200 {
			q := "INSERT INTO t(v) VALUES"
			for j := i; j < i+200 && j < c.Rows; j++ {
				if j > i {
					q += ","
				}
				q += fmt.Sprintf("('%0200d')", j)
			}
			stmts = append(stmts, q)
		}
		if _, _, err := g8bExec(n.S, true, stmts...); err != nil {
			n.Close()
			g8bInfra("setup write failed")
		}
		cleanPath := n.S.cleanSnapshotPath
		if err := n.Close(); err != nil { // snapshot-on-close writes the fingerprint
			g8bInfra("first close failed")
		}
		b, err := os.ReadFile(cleanPath)
		if err != nil {
			rec.Label("no-clean-snapshot-marker")
			g8bInfra("no clean snapshot marker")
		}
		if c.OldMarker {
			m := map[string]any{}
			if err := json.Unmarshal(b, &m); err != nil {
				t.Fatalf("harness: fingerprint is not JSON: %v", err)
			}
			delete(m, "crc32")
			nb, _ := json.MarshalIndent(m, "", "  ")
			if err := os.WriteFile(cleanPath, nb, 0o644); err != nil {
				t.Fatalf("harness: %v", err)
			}
		}

		n2, err := g8bNewStore("n1", dir)
		if err != nil {
			g8bInfra("listener")
		}
		defer n2.Ln.Close()
		s := n2.S
		s.HeartbeatTimeout, s.ElectionTimeout, s.LeaderLeaseTimeout = 250*time.Millisecond, 250*time.Millisecond, 250*time.Millisecond
		s.NoSnapshotOnClose = !c.SnapOnClose
		if err := s.Open(); err != nil {
			t.Logf("infrastructure: reopen: %v", err)
			g8bInfra("reopen failed")
		}
		openRet := time.Now()
		fast := s.numSnapshotsSkipped.Load() > 0
		// watch the gate: when is "check-clean-snapshot" gone?
		var releasedAt atomic.Int64
		stopWatch := make(chan struct{})
		watchDone := make(chan struct{})
		go func() {
			defer close(watchDone)
			for {
				if s.snapshotCAS.Owner() != "check-clean-snapshot" {
					releasedAt.Store(time.Now().UnixNano())
					return
				}
				select {
				case <-stopWatch:
					return
				case <-time.After(200 * time.Microsecond):
				}
			}
		}()
		if c.AfterLead {
			if _, err := s.WaitForLeader(30 * time.Second); err != nil {
				close(stopWatch)
				<-watchDone
				s.Close(true)
				g8bInfra("no leader after reopen")
			}
		}
		time.Sleep(time.Duration(c.OffsetMs) * time.Millisecond)
		ownerAtClose := s.snapshotCAS.Owner()
		closeCall := time.Now()
		cerr := s.Close(c.Wait)
		closeRet := time.Now()
		close(stopWatch)
		<-watchDone
		if cerr != nil {
			// free the store whatever happened
			if s.snapshotCAS.Owner() == "check-clean-snapshot" {
				s.snapshotCAS.End()
			}
			s.Close(true)
		}

		rec.Case(fast, c.String())
		if fast {
			rec.Label("fast-path")
		} else {
			rec.Label("full-restore-path")
		}
		if ownerAtClose == "check-clean-snapshot" {
			rec.Label("check-holds-gate-at-close")
		}
		rec.Label(fmt.Sprintf("oldMarker=%v", c.OldMarker))
		rec.Sample(fmt.Sprintf("%s fast=%v ownerAtClose=%q closeTook=%s err=%v", c, fast, ownerAtClose, closeRet.Sub(closeCall).Round(time.Millisecond), cerr))

		sigSuffix := "with-crc"
		if c.OldMarker {
			sigSuffix = "marker-without-crc"
		}
		if cerr != nil {
			sig := "C31/close-fails-after-startup-check/" + sigSuffix
			if rec.KnownHit(sig, "Close fails although the start-up integrity check finished long ago") {
				return
			}
			rt.Fatalf("%s", rec.Violation(sig, "Close returned %q after %s; the gate owner at the close call was %q, %s after Open returned; the start-up check of a %d-row database cannot still be running; case %s",
				cerr, closeRet.Sub(closeCall).Round(time.Millisecond), ownerAtClose, closeCall.Sub(openRet).Round(time.Millisecond), c.Rows, c))
		}
		ref := closeCall
		if r := releasedAt.Load(); r != 0 && time.Unix(0, r).After(ref) {
			ref = time.Unix(0, r)
		}
		if late := closeRet.Sub(ref); late > c31Slack {
			sig := "C31/close-late-after-startup-check/" + sigSuffix
			if rec.KnownHit(sig, "Close keeps waiting long after the start-up integrity check released the gate") {
				return
			}
			rt.Fatalf("%s", rec.Violation(sig, "Close returned %s after the later of (close call, gate release); case %s", late.Round(time.Millisecond), c))
		}
	})
}
