package store

// Shared helpers of group g8b-storesvc (C31, C37, C25, C21). Compiled into
// every check of package store: keep it small and always compiling. All names
// carry the g8b prefix.

import (
	"context"
	"fmt"
	"io"
	"log"
	"net"
	"os"
	"testing"
	"time"

	"github.com/rqlite/rqlite/v10/command/proto"
	"github.com/rqlite/rqlite/v10/internal/random"
	"github.com/rqlite/rqlite/v10/internal/verif/vstat"
)

// g8bLogger returns a logger that is silent unless VERIF_DEBUG is set.
func g8bLogger(prefix string) *log.Logger {
	if os.Getenv("VERIF_DEBUG") != "" {
		return log.New(os.Stderr, prefix, log.LstdFlags|log.Lmicroseconds)
	}
	return log.New(io.Discard, prefix, 0)
}

// g8bNode is a single-node store with its listener.
type g8bNode struct {
	S   *Store
	Ln  net.Listener
	Dir string
	ID  string
}

// g8bNewStore builds (does not open) a store on dir with node id.
func g8bNewStore(id, dir string) (*g8bNode, error) {
	ln, err := net.Listen("tcp", "127.0.0.1:0")
	if err != nil {
		return nil, err
	}
	ly := &mockLayer{ln}
	s := New(&Config{DBConf: NewDBConfig(), Dir: dir, ID: id, Logger: g8bLogger("[store] ")}, ly)
	return &g8bNode{S: s, Ln: ly, Dir: dir, ID: id}, nil
}

// g8bOpenSingle opens a (new or existing) single-node store on dir and waits
// for it to be leader. configure runs before Open. On error nothing is left
// open.
func g8bOpenSingle(id, dir string, configure func(*Store)) (*g8bNode, error) {
	if id == "" {
		id = random.String()
	}
	// start-up can fail for reasons that have nothing to do with the check (a busy
	// machine, a port race): try a few times. A directory that held nothing before
	// is wiped between attempts so that every attempt bootstraps.
	_, statErr := os.Stat(dir + "/raft.db")
	fresh := statErr != nil
	var n *g8bNode
	var err error
	for attempt := 0; attempt < 3; attempt++ {
		if n, err = g8bOpenSingleOnce(id, dir, configure); err == nil {
			return n, nil
		}
		if fresh {
			os.RemoveAll(dir)
		}
		time.Sleep(200 * time.Millisecond)
	}
	return nil, err
}

func g8bOpenSingleOnce(id, dir string, configure func(*Store)) (*g8bNode, error) {
	n, err := g8bNewStore(id, dir)
	if err != nil {
		return nil, err
	}
	// a single voter cannot lose its lease; short timeouts only make the first
	// election quick
	n.S.HeartbeatTimeout = 250 * time.Millisecond
	n.S.ElectionTimeout = 250 * time.Millisecond
	n.S.LeaderLeaseTimeout = 250 * time.Millisecond
	if configure != nil {
		configure(n.S)
	}
	_, statErr := os.Stat(n.S.raftDBPath)
	existing := statErr == nil
	if err := n.S.Open(); err != nil {
		n.Ln.Close()
		return nil, fmt.Errorf("open: %w", err)
	}
	if !existing {
		if err := n.S.Bootstrap(NewServer(n.S.ID(), n.S.Addr(), true)); err != nil {
			n.S.Close(true)
			n.Ln.Close()
			return nil, fmt.Errorf("bootstrap: %w", err)
		}
	}
	if _, err := n.S.WaitForLeader(30 * time.Second); err != nil {
		n.S.Close(true)
		n.Ln.Close()
		return nil, fmt.Errorf("wait for leader: %w", err)
	}
	return n, nil
}

// Close closes the store (waiting) and its listener.
func (n *g8bNode) Close() error {
	err := n.S.Close(true)
	n.Ln.Close()
	return err
}

// g8bExec runs statements as one request and returns the results, the raft
// index of the log entry, and an error (transport-level or first statement
// error).
func g8bExec(s *Store, tx bool, stmts ...string) ([]*proto.ExecuteQueryResponse, uint64, error) {
	res, idx, err := s.Execute(context.Background(), executeRequestFromStrings(stmts, false, tx))
	if err != nil {
		return res, idx, err
	}
	for _, r := range res {
		if e := r.GetError(); e != "" {
			return res, idx, fmt.Errorf("statement error: %s", e)
		}
		if e := r.GetE().GetError(); e != "" {
			return res, idx, fmt.Errorf("statement error: %s", e)
		}
	}
	return res, idx, nil
}

// g8bInfraSkip unwinds a case that hit infrastructure trouble (a store that did
// not come up, a request that could not be served): the case is counted as
// inconclusive, it is neither a pass nor a violation.
type g8bInfraSkip struct{ why string }

func g8bInfra(why string) { panic(g8bInfraSkip{why}) }

func g8bRecoverInfra(rec *vstat.Rec, t *testing.T) {
	if r := recover(); r != nil {
		if s, ok := r.(g8bInfraSkip); ok {
			rec.Label("inconclusive:infrastructure")
			t.Logf("inconclusive (infrastructure): %s", s.why)
			return
		}
		panic(r)
	}
}
