package store

// Shared helpers of group g8b-storesvc (C31, C37, C25, C21). Compiled into
// every check of package store: keep it small and always compiling. All names
// carry the g8b prefix.

import (
	"context"
	"fmt"
	"io"
	"log"
	"net"
	"os"
	"time"

	"github.com/rqlite/rqlite/v10/command/proto"
	"github.com/rqlite/rqlite/v10/internal/random"
)

// g8bLogger returns a logger that is silent unless VERIF_DEBUG is set.
func g8bLogger(prefix string) *log.Logger {
	if os.Getenv("VERIF_DEBUG") != "" {
		return log.New(os.Stderr, prefix, log.LstdFlags|log.Lmicroseconds)
	}
	return log.New(io.Discard, prefix, 0)
}

// g8bNode is a single-node store with its listener.
type g8bNode struct {
	S   *Store
	Ln  net.Listener
	Dir string
	ID  string
}

// g8bNewStore builds (does not open) a store on dir with node id.
func g8bNewStore(id, dir string) (*g8bNode, error) {
	ln, err := net.Listen("tcp", "127.0.0.1:0")
	if err != nil {
		return nil, err
	}
	ly := &mockLayer{ln}
	s := New(&Config{DBConf: NewDBConfig(), Dir: dir, ID: id, Logger: g8bLogger("[store] ")}, ly)
	return &g8bNode{S: s, Ln: ly, Dir: dir, ID: id}, nil
}

// g8bOpenSingle opens a (new or existing) single-node store on dir and waits
// for it to be leader. configure runs before Open. On error nothing is left
// open.
func g8bOpenSingle(id, dir string, configure func(*Store)) (*g8bNode, error) {
	if id == "" {
		id = random.String()
	}
	n, err := g8bNewStore(id, dir)
	if err != nil {
		return nil, err
	}
	// a single voter cannot lose its lease; short timeouts only make the first
	// election quick
	n.S.HeartbeatTimeout = 250 * time.Millisecond
	n.S.ElectionTimeout = 250 * time.Millisecond
	n.S.LeaderLeaseTimeout = 250 * time.Millisecond
	if configure != nil {
		configure(n.S)
	}
	_, statErr := os.Stat(n.S.raftDBPath)
	existing := statErr == nil
	if err := n.S.Open(); err != nil {
		n.Ln.Close()
		return nil, fmt.Errorf("open: %w", err)
	}
	if !existing {
		if err := n.S.Bootstrap(NewServer(n.S.ID(), n.S.Addr(), true)); err != nil {
			n.S.Close(true)
			n.Ln.Close()
			return nil, fmt.Errorf("bootstrap: %w", err)
		}
	}
	if _, err := n.S.WaitForLeader(30 * time.Second); err != nil {
		n.S.Close(true)
		n.Ln.Close()
		return nil, fmt.Errorf("wait for leader: %w", err)
	}
	return n, nil
}

// Close closes the store (waiting) and its listener.
func (n *g8bNode) Close() error {
	err := n.S.Close(true)
	n.Ln.Close()
	return err
}

// g8bExec runs statements as one request and returns the results, the raft
// index of the log entry, and an error (transport-level or first statement
// error).
func g8bExec(s *Store, tx bool, stmts ...string) ([]*proto.ExecuteQueryResponse, uint64, error) {
	res, idx, err := s.Execute(context.Background(), executeRequestFromStrings(stmts, false, tx))
	if err != nil {
		return res, idx, err
	}
	for _, r := range res {
		if e := r.GetError(); e != "" {
			return res, idx, fmt.Errorf("statement error: %s", e)
		}
		if e := r.GetE().GetError(); e != "" {
			return res, idx, fmt.Errorf("statement error: %s", e)
		}
	}
	return res, idx, nil
}
