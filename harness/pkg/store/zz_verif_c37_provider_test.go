package store

// C37, unit "provider": Provider.Provide (backup production with retries) must
// either report an error or leave a COMPLETE backup in the destination file.
// The snapshot gate is held (white-box) while the WAL is non-empty, which makes
// every Store.Backup attempt fail at once ("pre-backup snapshot failed"); the
// gate is released after a generated delay (inside or beyond the retry budget)
// or not at all. Retry knobs are shrunk (white-box) so a round costs
// milliseconds. Oracle: nil => the file (gunzipped if compressing) opens with
// the raw driver and its logical dump equals the model (same SQL on a raw-driver
// database).

import (
	"bytes"
	"compress/gzip"
	"fmt"
	"io"
	"os"
	"path/filepath"
	"testing"
	"time"

	"github.com/rqlite/rqlite/v10/internal/verif/vsql"
	"github.com/rqlite/rqlite/v10/internal/verif/vstat"
	"pgregory.net/rapid"
)

func TestVerif_C37_Provider(t *testing.T) {
	rec := vstat.New(t, "C37", "provider",
		"real Store + Provider with retries {0,1,3,6} x interval {2,10 ms} x vacuum x compress; 3..8 steps of (write, Provide) with the snapshot gate free, held and released after a generated delay (within or beyond the retry budget), or held throughout; non-trivial = some Provide ran with the gate held at its start; distinct by parameters + step list")
	rapid.Check(t, func(rt *rapid.T) {
		defer g8bRecoverInfra(rec, t)
		vacuum := rapid.Bool().Draw(rt, "vacuum")
		compress := rapid.Bool().Draw(rt, "compress")
		nRetries := rapid.SampledFrom([]int{0, 1, 3, 6}).Draw(rt, "nRetries")
		interval := time.Duration(rapid.SampledFrom([]int{2, 10}).Draw(rt, "intervalMs")) * time.Millisecond
		type step struct {
			Gate      string // free, release, held
			ReleaseMs int
		}
		nSteps := rapid.IntRange(3, 8).Draw(rt, "nSteps")
		var steps []step
		for i := 0; i < nSteps; i++ {
			st := step{Gate: rapid.SampledFrom([]string{"free", "release", "release", "held", "held"}).Draw(rt, "gate")}
			if st.Gate == "release" {
				st.ReleaseMs = rapid.IntRange(0, int(interval/time.Millisecond)*(nRetries+2)+5).Draw(rt, "releaseMs")
			}
			steps = append(steps, st)
		}

		dir, err := os.MkdirTemp("", "c37p-")
		if err != nil {
			g8bInfra("tempdir")
		}
		defer os.RemoveAll(dir)
		n, err := g8bOpenSingle("", filepath.Join(dir, "node"), nil)
		if err != nil {
			t.Logf("infrastructure: %v", err)
			g8bInfra("store did not come up")
		}
		defer n.Close()
		s := n.S
		model, err := vsql.OpenMem()
		if err != nil {
			g8bInfra("model")
		}
		defer model.Close()
		both := func(stmts ...string) bool {
			if _, _, err := g8bExec(s, true, stmts...); err != nil {
				t.Logf("infrastructure: write: %v", err)
				return false
			}
			for _, q := range stmts {
				if _, err := model.Exec(q); err != nil {
					t.Fatalf("harness: model: %v", err)
				}
			}
			return true
		}
		if !both("CREATE TABLE t(id INTEGER PRIMARY KEY, v TEXT)", "INSERT INTO t(v) VALUES('init')") {
			g8bInfra("setup")
		}
		p := NewProvider(s, vacuum, compress)
		p.nRetries, p.retryInterval = nRetries, interval

		nontrivial := false
		canon := fmt.Sprintf("v=%v c=%v r=%d i=%s", vacuum, compress, nRetries, interval)
		for i, st := range steps {
			canon += fmt.Sprintf(" %s/%d", st.Gate, st.ReleaseMs)
			// a write: the index advances and the WAL is non-empty, so a busy gate
			// makes the backup fail immediately instead of waiting for the gate
			if !both(fmt.Sprintf("INSERT INTO t(v) VALUES('s%d')", i)) {
				g8bInfra("write failed")
			}
			released := make(chan struct{})
			if st.Gate != "free" {
				if err := s.snapshotCAS.Begin("snapshot"); err != nil {
					g8bInfra("gate unexpectedly busy")
				}
				nontrivial = true
				if st.Gate == "release" {
					go func(d time.Duration) {
						time.Sleep(d)
						s.snapshotCAS.End()
						close(released)
					}(time.Duration(st.ReleaseMs) * time.Millisecond)
				}
			}
			f, err := os.CreateTemp(dir, "provide-")
			if err != nil {
				g8bInfra("tempfile")
			}
			perr := p.Provide(f)
			switch st.Gate {
			case "release":
				<-released
			case "held":
				s.snapshotCAS.End()
			}
			f.Close()
			data, rerr := os.ReadFile(f.Name())
			os.Remove(f.Name())
			if rerr != nil {
				t.Fatalf("harness: %v", rerr)
			}
			rec.Label("gate=" + st.Gate)
			if perr != nil {
				rec.Label("provide-error/gate=" + st.Gate)
				continue
			}
			rec.Label("provide-ok/gate=" + st.Gate)
			ctxs := fmt.Sprintf("step %d gate=%s release=%dms vacuum=%v compress=%v retries=%d interval=%s", i+1, st.Gate, st.ReleaseMs, vacuum, compress, nRetries, interval)
			bad := func(why string) {
				sig := "C37/provide-ok-but-backup-incomplete"
				if rec.KnownHit(sig, "Provide returns nil although no complete backup was written") {
					return
				}
				rt.Fatalf("%s", rec.Violation(sig, "%s: Provide returned nil but the destination (%d bytes) %s", ctxs, len(data), why))
			}
			raw := data
			if compress {
				zr, err := gzip.NewReader(bytes.NewReader(data))
				if err != nil {
					bad("is not gzip: " + err.Error())
					return
				}
				raw, err = io.ReadAll(zr)
				if err != nil {
					bad("is truncated gzip: " + err.Error())
					return
				}
			}
			up := filepath.Join(dir, "provided.db")
			os.WriteFile(up, raw, 0o644)
			got, err := vsql.DumpFile(up)
			os.Remove(up)
			if err != nil {
				bad("does not open as a database: " + err.Error())
				return
			}
			want, err := vsql.DumpDB(model)
			if err != nil {
				t.Fatalf("harness: %v", err)
			}
			if got != want {
				bad(fmt.Sprintf("differs from the committed state.\n--- provided\n%s--- expected\n%s", got, want))
				return
			}
		}
		rec.Case(nontrivial, canon)
		rec.Sample(canon)
	})
}
