package store

// C17: reads never modify data; databases change only through the log.
//
// Two units share one generator of SQL texts (plain reads, plain writes, and
// writes disguised behind a read-only first statement, EXPLAIN, PRAGMA,
// comments, BEGIN…COMMIT, CTE-writes, RETURNING, temp tables, ATTACH):
//
//   db    — rqlite's database layer alone: DB.Query (the query-endpoint path)
//           and DB.Request (the unified path);
//   store — a real single-node Store: Store.Query and Store.Request at every
//           consistency level (none, weak, linearizable, strong, auto).
//
// Oracle (from the property text and SQLite, nothing from rqlite's classifier):
//   * query-endpoint requests never change the logical content of the node's
//     database (raw-driver dump of a copy of the files + user_version);
//   * in a unified request, every statement that was *answered as a query*
//     (rows, i.e. treated as read-only) must not have changed anything: the
//     content afterwards must equal a model obtained by executing, with the raw
//     driver on a copy of the files taken before the request, only the texts that
//     were answered as executes. If nothing was answered as an execute the
//     content, and on a Store the DB-applied index, must be unchanged.
// Requests in which any statement returned an error are judged only by the
// "nothing answered as an execute => unchanged" rule (error/rollback semantics
// belong to other properties).

import (
	"context"
	"fmt"
	"math/rand/v2"
	"net"
	"os"
	"path/filepath"
	"strings"
	"testing"
	"time"

	"github.com/rqlite/rqlite/v10/command/proto"
	csql "github.com/rqlite/rqlite/v10/command/sql"
	sql "github.com/rqlite/rqlite/v10/db"
	"github.com/rqlite/rqlite/v10/internal/verif/vsql"
	"github.com/rqlite/rqlite/v10/internal/verif/vstat"
	"pgregory.net/rapid"
)

type c17Gen struct {
	rng *rand.Rand
	k   int // counter for fresh names / values
}

func (g *c17Gen) of(xs ...string) string { return xs[g.rng.IntN(len(xs))] }
func (g *c17Gen) pct(p int) bool         { return g.rng.IntN(100) < p }

func (g *c17Gen) read() string {
	return g.of("SELECT * FROM t", "SELECT count(*) FROM t WHERE n > 1", "SELECT 1", "VALUES (1)", "select v from t order by id limit 2",
		"WITH x AS (SELECT 1 AS a) SELECT a FROM x", "EXPLAIN SELECT * FROM t", "EXPLAIN QUERY PLAN SELECT 1", "explain INSERT INTO t(v, n) VALUES ('e', 0)",
		"PRAGMA table_info(t)", "PRAGMA user_version", "SELECT sqlite_version()", "/* c */ SELECT 2", "-- c\nSELECT 3", "SELECT max(id) FROM t",
		// semicolons and comment markers inside strings, quoted and bracketed identifiers
		"SELECT ';'", "SELECT 'a;b' AS \"c;d\"", "SELECT 1 AS [x;y]", "SELECT `a;b` FROM (SELECT 1 AS `a;b`)", "SELECT '/* ', ' */'", "SELECT '--', 2",
		"SELECT 'it''s;'", "SELECT \"v\" FROM t WHERE v <> ';--'", "SELECT 1 /* ; */ + 1", "SELECT 1 -- ; \n + 1", "SELECT [id] FROM t WHERE id = 1 /* c */")
}

// tail returns what may follow the last statement of a text.
func (g *c17Gen) tail() string {
	return g.of("", "", "", ";", " ; ", "; -- end", " -- end", "/* end */", ";/* end */", " /* ; */", "; /* unterminated", "\n--")
}

// write returns a statement that changes the database (or, for the last
// kinds, connection-local state only) and a label.
func (g *c17Gen) write() (string, string) {
	g.k++
	k := g.k
	switch r := g.rng.IntN(100); {
	case r < 25:
		return fmt.Sprintf("INSERT INTO t(v, n) VALUES ('w%d', %d)", k, k), "insert"
	case r < 35:
		return fmt.Sprintf("UPDATE t SET n = n + %d WHERE id = 1", k), "update"
	case r < 43:
		return "DELETE FROM t WHERE id = (SELECT max(id) FROM t)", "delete"
	case r < 50:
		return fmt.Sprintf("CREATE TABLE IF NOT EXISTS u%d (a)", k%3), "create-table"
	case r < 57:
		return fmt.Sprintf("INSERT INTO t(v, n) VALUES ('r%d', 1) RETURNING id", k), "insert-returning"
	case r < 63:
		return fmt.Sprintf("REPLACE INTO t(id, v, n) VALUES (1, 'rep%d', 0)", k), "replace"
	case r < 70:
		return fmt.Sprintf("WITH x(a) AS (SELECT %d) INSERT INTO t(v, n) SELECT 'cte', a FROM x", k), "cte-insert"
	case r < 75:
		return "CREATE INDEX IF NOT EXISTS ix ON t(n)", "create-index"
	case r < 82:
		return fmt.Sprintf("PRAGMA user_version = %d", k), "pragma-user-version"
	case r < 86:
		return fmt.Sprintf("DROP TABLE IF EXISTS u%d", k%3), "drop-table"
	case r < 90:
		return fmt.Sprintf("UPDATE t SET v = 'up%d' WHERE n >= 0 RETURNING id, v", k), "update-returning"
	case r < 94:
		return "INSERT OR IGNORE INTO t(id, v, n) VALUES (2, 'ign', 0)", "insert-or-ignore"
	case r < 97:
		return "CREATE TEMP TABLE IF NOT EXISTS tt (a)", "temp-table"
	default:
		return fmt.Sprintf("ATTACH DATABASE ':memory:' AS aux%d", k), "attach"
	}
}

type c17Text struct {
	SQL   string
	Kind  string // read, write, disguised, write-then-read
	What  string // write label
	Multi bool   // more than one statement in the text
}

func (g *c17Gen) text() c17Text {
	// statement separator: whitespace and comments of both styles directly before and after the ';'
	// (a comment ending right at the ';', a comment containing ';', adjacent comments, nested-looking ones)
	sep := func() string {
		if g.pct(35) {
			return g.of(";", "; ", ";\n", " ; ")
		}
		pre := g.of("", "", " ", "/* c */", " /* c */", "/* ; */", "/**/", "/* a *//* b */", "/* /* x */", "-- c\n", " -- x; y\n", "--\n", "/* c */ ", "\n-- c\n\t")
		post := g.of("", "", " ", "\n", "/* c */", " /* ; */ ", " -- c\n", "--;\n", "/**/")
		return pre + ";" + post
	}
	if g.pct(4) {
		// very long texts: many cheap read-only statements, then a write (bounded walks are a classic)
		counts := []int{63, 64, 65, 127, 128, 129, 255, 256, 257, 300, 511, 512, 513, 1000, 1025, 2049}
		n := counts[g.rng.IntN(len(counts))]
		w, what := g.write()
		unit := g.of("SELECT 1;", "SELECT 1; ", "select 1;\n", "VALUES(1);")
		return c17Text{strings.Repeat(unit, n) + w + g.tail(), "disguised", "many-statements:" + what, true}
	}
	switch r := g.rng.IntN(100); {
	case r < 25:
		s := g.read()
		multi := g.pct(20)
		if multi {
			s += sep() + g.read()
		}
		return c17Text{s + g.tail(), "read", "", multi}
	case r < 45:
		w, what := g.write()
		multi := g.pct(20)
		if multi {
			w2, _ := g.write()
			w += sep() + w2
		}
		return c17Text{w + g.tail(), "write", what, multi}
	case r < 88:
		// a write behind one or two read-only statements
		w, what := g.write()
		var s string
		switch g.rng.IntN(6) {
		case 0, 1, 2:
			s = g.read() + sep() + w
		case 3:
			s = g.read() + sep() + g.read() + sep() + w
		case 4:
			s = "BEGIN" + sep() + w + sep() + "COMMIT"
		case 5:
			s = g.of(";", " ;", "/* c */;") + g.read() + sep() + w
		}
		return c17Text{s + g.tail(), "disguised", what, true}
	default:
		w, what := g.write()
		return c17Text{w + sep() + g.read() + g.tail(), "write-then-read", what, true}
	}
}

const c17Schema = "CREATE TABLE t (id INTEGER PRIMARY KEY, v TEXT, n INTEGER)"
const c17Rows = "INSERT INTO t(v, n) VALUES ('a', 1), ('b', 2), ('c', 3)"

// c17Snap copies the database files to dir and returns the logical content
// (raw-driver dump + user_version) of the copy. The copy stays in dir.
func c17Snap(dbPath, dir string) (string, error) {
	dst := filepath.Join(dir, "copy.db")
	os.Remove(dst)
	os.Remove(dst + "-wal")
	os.Remove(dst + "-shm")
	if err := vsql.CopyFile(dbPath, dst); err != nil {
		return "", err
	}
	if _, err := os.Stat(dbPath + "-wal"); err == nil {
		if err := vsql.CopyFile(dbPath+"-wal", dst+"-wal"); err != nil {
			return "", err
		}
	}
	return c17DumpAt(dst)
}

func c17DumpAt(path string) (string, error) {
	h, err := vsql.Open(path)
	if err != nil {
		return "", err
	}
	defer h.Close()
	d, err := vsql.DumpDB(h)
	if err != nil {
		return "", err
	}
	var uv int
	if err := h.QueryRow("PRAGMA user_version").Scan(&uv); err != nil {
		return "", err
	}
	return fmt.Sprintf("%suser_version=%d\n", d, uv), nil
}

// c17Model executes the given texts with the raw driver on a second copy of
// the "before" files and returns the resulting content.
func c17Model(beforeDir string, texts []string) (string, error) {
	src := filepath.Join(beforeDir, "copy.db")
	dst := filepath.Join(beforeDir, "model.db")
	os.Remove(dst)
	os.Remove(dst + "-wal")
	os.Remove(dst + "-shm")
	// the "before" copy was opened and closed by the raw driver: its WAL is checkpointed
	if err := vsql.CopyFile(src, dst); err != nil {
		return "", err
	}
	if _, err := os.Stat(src + "-wal"); err == nil {
		if err := vsql.CopyFile(src+"-wal", dst+"-wal"); err != nil {
			return "", err
		}
	}
	h, err := vsql.Open(dst)
	if err != nil {
		return "", err
	}
	for _, t := range texts {
		if _, err := h.Exec(t); err != nil {
			h.Close()
			return "", fmt.Errorf("model exec %q: %w", t, err)
		}
	}
	h.Close()
	return c17DumpAt(dst)
}

// c17Judge applies the unified-request oracle. resp are the per-text answers.
func c17Judge(texts []c17Text, stmts []*proto.Statement, resp []*proto.ExecuteQueryResponse, before, after, beforeDir string) (ok bool, sig, msg string, labels []string) {
	var executed []string
	anyErr := false
	nQ := 0
	for i, r := range resp {
		switch {
		case r.GetError() != "":
			anyErr = true
		case r.GetE() != nil:
			if i < len(stmts) {
				executed = append(executed, stmts[i].Sql)
			}
		case r.GetQ() != nil:
			if r.GetQ().Error != "" {
				anyErr = true
			} else if i < len(stmts) && stmts[i].ForceQuery {
				// A write with a RETURNING clause (flagged ForceQuery by command/sql.Process, as the
				// HTTP layer does) is answered with rows by design: it was not treated as read-only.
				// With several statements in such a text only the last one is stepped (a lost-write
				// question for C13/C14, not a read that modifies): not judged.
				// That includes a mere comment after the terminating ';' ("INSERT … RETURNING id; -- c"):
				// the driver's query loop then closes the INSERT unstepped and the write is silently lost
				// (observed on the pinned tree; reported to the lead as a side finding, not a C17 matter).
				if strings.Contains(stmts[i].Sql, ";") || (i < len(texts) && texts[i].Multi) {
					labels = append(labels, "judged:skipped-forcequery-multi")
					return true, "", "", labels
				}
				executed = append(executed, stmts[i].Sql)
			} else {
				nQ++
			}
		}
	}
	if len(resp) != len(stmts) {
		anyErr = true
	}
	if len(executed) == 0 {
		labels = append(labels, "judged:all-answered-as-reads")
		if after != before {
			return false, "C17/statement-answered-as-read-modified-db", fmt.Sprintf("no statement was answered as an execute, yet the database content changed:\nbefore:\n%s\nafter:\n%s", before, after), labels
		}
		return true, "", "", labels
	}
	if anyErr {
		labels = append(labels, "judged:skipped-error-response")
		return true, "", "", labels
	}
	labels = append(labels, "judged:mixed-vs-model")
	want, err := c17Model(beforeDir, executed)
	if err != nil {
		labels = append(labels, "judged:model-error")
		return true, "", "", labels
	}
	if after != want {
		return false, "C17/statement-answered-as-read-modified-db", fmt.Sprintf("%d statement(s) answered as reads; content differs from the model that applies only the %d text(s) answered as executes %q:\nmodel:\n%s\nactual:\n%s", nQ, len(executed), executed, want, after), labels
	}
	return true, "", "", labels
}

func c17Req(texts []c17Text, tx bool) *proto.Request {
	r := &proto.Request{Transaction: tx}
	for _, t := range texts {
		r.Statements = append(r.Statements, &proto.Statement{Sql: t.SQL})
	}
	return r
}

// c17Preprocess does to the statements what rqlite's HTTP handlers do before they
// call the Store: command/sql.Process, which (besides rewriting) sets the SqlExplain
// and ForceQuery flags the database layer later acts on. /db/request rewrites always,
// /db/query only at level strong.
func c17Preprocess(r *proto.Request, endpoint string, strong bool) error {
	if endpoint == "query" {
		return csql.Process(r.Statements, strong, strong)
	}
	return csql.Process(r.Statements, true, true)
}

func c17Render(texts []c17Text) string {
	var parts []string
	for _, t := range texts {
		q := t.SQL
		if len(q) > 400 { // very long generated texts are abbreviated in messages
			q = fmt.Sprintf("%s …[%d bytes, %d x ';']… %s", q[:120], len(q), strings.Count(q, ";"), q[len(q)-160:])
		}
		parts = append(parts, fmt.Sprintf("%q", q))
	}
	return strings.Join(parts, ", ")
}

func c17Nontrivial(texts []c17Text) bool {
	for _, t := range texts {
		if t.Kind != "read" {
			return true
		}
	}
	return false
}

func c17NewRng(rt *rapid.T, salt uint64) *rand.Rand {
	seeds := rapid.SliceOfN(rapid.Uint64(), 3, 3).Draw(rt, "seed")
	return rand.New(rand.NewPCG(seeds[0]^(seeds[1]*0x9E3779B97F4A7C15), seeds[2]+salt))
}

func TestVerif_C17_DB(t *testing.T) {
	rec := vstat.New(t, "C17", "db",
		"rapid-seeded PCG: per case a fresh database opened like rqlite's and a sequence of requests of 1-3 SQL texts (reads; writes of 14 kinds; writes disguised behind 1-2 read-only statements / BEGIN…COMMIT / leading semicolon; write-then-read), sent to DB.Query or DB.Request with/without transaction; content judged after every request; non-trivial = request contains a data-changing statement somewhere; distinct by request text+path")
	nreq := vstat.Scale(12, 25)
	rapid.Check(t, func(rt *rapid.T) {
		g := &c17Gen{rng: c17NewRng(rt, 17)}
		dir, err := os.MkdirTemp("", "c17d")
		if err != nil {
			fmt.Println("VERIF-INFRA:", err)
			rec.Label("inconclusive:infrastructure")
			return
		}
		defer os.RemoveAll(dir)
		d, err := sql.Open(filepath.Join(dir, "c17.db"), false, true)
		if err != nil {
			fmt.Println("VERIF-INFRA:", err)
			rec.Label("inconclusive:infrastructure")
			return
		}
		defer d.Close()
		for _, q := range []string{c17Schema, c17Rows} {
			if _, err := d.ExecuteStringStmt(q); err != nil {
				fmt.Println("VERIF-INFRA:", err)
				rec.Label("inconclusive:infrastructure")
				return
			}
		}
		snapDir := filepath.Join(dir, "snap")
		os.MkdirAll(snapDir, 0o755)
		afterDir := filepath.Join(dir, "after")
		os.MkdirAll(afterDir, 0o755)
		for i := 0; i < nreq; i++ {
			n := 1 + g.rng.IntN(3)
			texts := make([]c17Text, n)
			for j := range texts {
				texts[j] = g.text()
				rec.Label("text:" + texts[j].Kind)
				if texts[j].Kind == "disguised" {
					rec.Label("disguised:" + texts[j].What)
				}
			}
			tx := g.pct(20)
			path := g.of("query", "request", "request")
			rec.Case(c17Nontrivial(texts), c17Render(texts)+"|"+path)
			rec.Sample(fmt.Sprintf("%s tx=%v %s", path, tx, c17Render(texts)))
			rec.Label("path:" + path)
			before, err := c17Snap(d.Path(), snapDir)
			if err != nil {
				fmt.Println("VERIF-INFRA:", err)
				rec.Label("inconclusive:infrastructure")
				return
			}
			req := c17Req(texts, tx)
			pre := g.pct(85)
			if pre {
				rec.Label("preprocessed:yes")
				if err := c17Preprocess(req, path, g.pct(50)); err != nil {
					rec.Label("preprocess:rejected")
					continue
				}
			} else {
				rec.Label("preprocessed:no")
			}
			if path == "query" {
				d.Query(req, false)
				after, err := c17Snap(d.Path(), afterDir)
				if err != nil {
					fmt.Println("VERIF-INFRA:", err)
					rec.Label("inconclusive:infrastructure")
					return
				}
				if after != before {
					sig := "C17/query-path-modified-db"
					if rec.KnownHit(sig, "a request on the query path changed the database") {
						return
					}
					rt.Fatalf("%s", rec.Violation(sig, "DB.Query(tx=%v) of %s changed the database:\nbefore:\n%s\nafter:\n%s", tx, c17Render(texts), before, after))
				}
				continue
			}
			resp, rerr := d.Request(req, false)
			after, err := c17Snap(d.Path(), afterDir)
			if err != nil {
				fmt.Println("VERIF-INFRA:", err)
				rec.Label("inconclusive:infrastructure")
				return
			}
			if rerr != nil {
				// whole-request error (e.g. commit failed after an explicit COMMIT in the text): C13's business
				rec.Label("request:error-not-judged")
				continue
			}
			ok, sig, msg, labels := c17Judge(texts, req.Statements, resp, before, after, snapDir)
			for _, l := range labels {
				rec.Label(l)
			}
			if !ok {
				if rec.KnownHit(sig, "a text whose first statement is read-only is answered as a query but its last statement, a write, is executed on the read-write connection") {
					return
				}
				rt.Fatalf("%s", rec.Violation(sig, "DB.Request(tx=%v, preprocessed by command/sql.Process=%v) of %s: %s", tx, pre, c17Render(texts), msg))
			}
		}
	})
}

func TestVerif_C17_Store(t *testing.T) {
	rec := vstat.New(t, "C17", "store",
		"rapid-seeded PCG: per case a fresh single-node Store and a sequence of requests of 1-3 SQL texts (same generator as db) sent to Store.Query or Store.Request at levels none/weak/linearizable/strong/auto, with/without transaction; database content (raw dump of a copy of the node's files + user_version) and DB-applied index judged after every request; non-trivial = request contains a data-changing statement somewhere; distinct by request text+endpoint+level")
	nreq := vstat.Scale(25, 50)
	levels := []proto.ConsistencyLevel{proto.ConsistencyLevel_NONE, proto.ConsistencyLevel_WEAK, proto.ConsistencyLevel_LINEARIZABLE,
		proto.ConsistencyLevel_STRONG, proto.ConsistencyLevel_AUTO}
	rapid.Check(t, func(rt *rapid.T) {
		g := &c17Gen{rng: c17NewRng(rt, 1717)}
		dir, err := os.MkdirTemp("", "c17s")
		if err != nil {
			fmt.Println("VERIF-INFRA:", err)
			rec.Label("inconclusive:infrastructure")
			return
		}
		defer os.RemoveAll(dir)
		s, ln, err := c17NewStore(filepath.Join(dir, "node"))
		if err != nil {
			fmt.Fprintf(os.Stderr, "C17-SKIP store did not come up: %v\n", err)
			fmt.Printf("VERIF-INFRA: "+"single-node store did not come up: %v"+"\n", err)
			rec.Label("inconclusive:infrastructure")
			return
		}
		defer ln.Close()
		defer s.Close(true)
		ctx := context.Background()
		if _, _, err := s.Execute(ctx, executeRequestFromStrings([]string{c17Schema, c17Rows}, false, false)); err != nil {
			fmt.Fprintf(os.Stderr, "C17-SKIP setup failed: %v\n", err)
			fmt.Printf("VERIF-INFRA: "+"setup failed: %v"+"\n", err)
			rec.Label("inconclusive:infrastructure")
			return
		}
		snapDir := filepath.Join(dir, "snap")
		os.MkdirAll(snapDir, 0o755)
		afterDir := filepath.Join(dir, "after")
		os.MkdirAll(afterDir, 0o755)
		for i := 0; i < nreq; i++ {
			n := 1 + g.rng.IntN(3)
			texts := make([]c17Text, n)
			var sqls []string
			for j := range texts {
				texts[j] = g.text()
				sqls = append(sqls, texts[j].SQL)
				rec.Label("text:" + texts[j].Kind)
			}
			tx := g.pct(20)
			endpoint := g.of("query", "request", "request")
			lvl := levels[g.rng.IntN(len(levels))]
			rec.Case(c17Nontrivial(texts), c17Render(texts)+"|"+endpoint+"|"+lvl.String())
			rec.Sample(fmt.Sprintf("%s %s tx=%v %s", endpoint, lvl, tx, c17Render(texts)))
			rec.Label("endpoint:" + endpoint)
			rec.Label("level:" + lvl.String())
			snaps := s.numSnapshots.Load()
			before, err := c17Snap(s.dbPath, snapDir)
			if err != nil {
				fmt.Println("VERIF-INFRA:", err)
				rec.Label("inconclusive:infrastructure")
				return
			}
			idx0 := s.DBAppliedIndex()
			if endpoint == "query" {
				qreq := c17Req(texts, tx)
				if g.pct(85) {
					if err := c17Preprocess(qreq, "query", lvl == proto.ConsistencyLevel_STRONG); err != nil {
						continue
					}
				}
				qr := &proto.QueryRequest{Request: qreq}
				qr.Level = lvl
				qr.LinearizableTimeout = int64(3 * time.Second)
				s.Query(ctx, qr)
				after, err := c17Snap(s.dbPath, afterDir)
				if err != nil {
					fmt.Println("VERIF-INFRA:", err)
					rec.Label("inconclusive:infrastructure")
					return
				}
				if s.numSnapshots.Load() != snaps {
					continue
				}
				if after != before || s.DBAppliedIndex() != idx0 {
					sig := "C17/query-endpoint-modified-db"
					if rec.KnownHit(sig, "a request on the query endpoint changed the database") {
						return
					}
					rt.Fatalf("%s", rec.Violation(sig, "Store.Query(level=%s, tx=%v) of %s changed the node's database (DB-applied index %d -> %d):\nbefore:\n%s\nafter:\n%s",
						lvl, tx, c17Render(texts), idx0, s.DBAppliedIndex(), before, after))
				}
				continue
			}
			ereq := c17Req(texts, tx)
			pre := g.pct(85)
			if pre {
				rec.Label("preprocessed:yes")
				if err := c17Preprocess(ereq, "request", true); err != nil {
					rec.Label("preprocess:rejected")
					continue
				}
			} else {
				rec.Label("preprocessed:no")
			}
			eqr := &proto.ExecuteQueryRequest{Request: ereq, Level: lvl}
			eqr.LinearizableTimeout = int64(3 * time.Second)
			resp, _, _, rerr := s.Request(ctx, eqr)
			after, err := c17Snap(s.dbPath, afterDir)
			if err != nil {
				fmt.Println("VERIF-INFRA:", err)
				rec.Label("inconclusive:infrastructure")
				return
			}
			if s.numSnapshots.Load() != snaps {
				continue
			}
			if rerr != nil {
				// The request as a whole returned an error (e.g. an explicit COMMIT inside a
				// transactional request): the per-statement answers are not available, so what
				// was treated as read-only is unknown. Error semantics belong to C13; not judged.
				rec.Label("request:error-not-judged")
				continue
			}
			ok, sig, msg, labels := c17Judge(texts, ereq.Statements, resp, before, after, snapDir)
			for _, l := range labels {
				rec.Label(l)
			}
			if ok && len(labels) > 0 && labels[0] == "judged:all-answered-as-reads" && s.DBAppliedIndex() != idx0 {
				ok, sig, msg = false, "C17/statement-answered-as-read-modified-db", fmt.Sprintf("DB-applied index moved %d -> %d although nothing was answered as an execute", idx0, s.DBAppliedIndex())
			}
			if !ok {
				if rec.KnownHit(sig, "a text whose first statement is read-only is answered as a query but its last statement, a write, is executed on the read-write connection") {
					return
				}
				rt.Fatalf("%s", rec.Violation(sig, "Store.Request(level=%s, tx=%v, preprocessed by command/sql.Process=%v, err=%v) of %q: %s", lvl, tx, pre, rerr, sqls, msg))
			}
		}
	})
}

// c17NewStore brings up a single-node Store under dir. Start-up trouble (listen, open, bootstrap,
// leader wait) is retried twice with a short back-off in a fresh sub-directory before giving up.
func c17NewStore(dir string, maxRO ...int) (*Store, net.Listener, error) {
	var lastErr error
	for try := 0; try < 3; try++ {
		if try > 0 {
			time.Sleep(time.Duration(try) * 500 * time.Millisecond)
		}
		s, ln, err := c17NewStoreOnce(filepath.Join(dir, fmt.Sprintf("try%d", try)), maxRO...)
		if err == nil {
			return s, ln, nil
		}
		lastErr = err
		fmt.Println("VERIF-INFRA: store start-up attempt failed:", err)
	}
	return nil, nil, lastErr
}

func c17NewStoreOnce(dir string, maxRO ...int) (*Store, net.Listener, error) {
	if err := os.MkdirAll(dir, 0o755); err != nil {
		return nil, nil, err
	}
	ln, err := net.Listen("tcp", "127.0.0.1:0")
	if err != nil {
		return nil, nil, err
	}
	s := New(&Config{DBConf: NewDBConfig(), Dir: dir, ID: "n1"}, &mockLayer{ln})
	if s == nil {
		ln.Close()
		return nil, nil, fmt.Errorf("store.New returned nil")
	}
	if len(maxRO) > 0 {
		s.MaxReadOnlyConns = maxRO[0] // what -db-max-ro-conns sets
	}
	if err := s.Open(); err != nil {
		ln.Close()
		return nil, nil, err
	}
	if err := s.Bootstrap(NewServer(s.ID(), s.Addr(), true)); err != nil {
		s.Close(true)
		ln.Close()
		return nil, nil, err
	}
	if _, err := s.WaitForLeader(30 * time.Second); err != nil {
		s.Close(true)
		ln.Close()
		return nil, nil, err
	}
	return s, ln, nil
}

// ---------------------------------------------------------------------------
// Unit ropool: the query endpoint under a saturated, bounded read-only pool.
//
// rqlited always bounds the read-only pool (-db-max-ro-conns). Here it is bounded to
// 1-2 connections and every one of them is parked on a stalled reader (the ForceStall
// fault-injection hook, i.e. a long-running client query) when a query-endpoint request
// carrying a write arrives through DB.Query / Store.Query at none, weak or strong.
// Oracle unchanged: content (and DB-applied index) must not change; being refused,
// timing out or blocking until a reader finishes is fine.

func c17ParkReaders(ctx context.Context, query func(context.Context, *proto.Request) error, k int) (wait func()) {
	done := make(chan struct{}, k)
	for i := 0; i < k; i++ {
		go func() {
			defer func() { done <- struct{}{} }()
			query(ctx, &proto.Request{Statements: []*proto.Statement{{Sql: "SELECT 1", ForceStall: true}}})
		}()
	}
	return func() {
		for i := 0; i < k; i++ {
			select {
			case <-done:
			case <-time.After(60 * time.Second):
				return
			}
		}
	}
}

// c17Saturated waits until a short probe query cannot get a read-only connection any more.
func c17Saturated(query func(context.Context, *proto.Request) error) bool {
	for i := 0; i < 100; i++ {
		pctx, cancel := context.WithTimeout(context.Background(), 100*time.Millisecond)
		err := query(pctx, &proto.Request{Statements: []*proto.Statement{{Sql: "SELECT 1"}}})
		cancel()
		if err != nil {
			return true
		}
		time.Sleep(50 * time.Millisecond)
	}
	return false
}

func TestVerif_C17_ROPool(t *testing.T) {
	rec := vstat.New(t, "C17", "ropool",
		"rapid-seeded PCG: per case a database (DB alone or a single-node Store) whose read-only pool is bounded to 1-2 connections, all of them held by stalled readers (ForceStall), then 2 query-endpoint requests carrying writes (plain, disguised behind reads, write-then-read) via DB.Query or Store.Query at none/weak/strong with a 2.5 s budget; content and DB-applied index compared before/after; non-trivial = always (each request carries a write); distinct by target+level+text")
	rapid.Check(t, func(rt *rapid.T) {
		g := &c17Gen{rng: c17NewRng(rt, 171717)}
		dir, err := os.MkdirTemp("", "c17p")
		if err != nil {
			fmt.Println("VERIF-INFRA:", err)
			rec.Label("inconclusive:infrastructure")
			return
		}
		defer os.RemoveAll(dir)
		bound := 1 + g.rng.IntN(2)
		target := g.of("db", "store")
		ctx := context.Background()

		var dbPath string
		var stalled func(context.Context, *proto.Request) error // how a client query reaches the read-only pool
		var attempt func(context.Context, *proto.Request, proto.ConsistencyLevel) error
		var applied func() uint64
		if target == "db" {
			d, err := sql.Open(filepath.Join(dir, "c17.db"), false, true)
			if err != nil {
				fmt.Println("VERIF-INFRA:", err)
				rec.Label("inconclusive:infrastructure")
				return
			}
			defer d.Close()
			d.SetMaxReadOnlyConns(bound)
			for _, q := range []string{c17Schema, c17Rows} {
				if _, err := d.ExecuteStringStmt(q); err != nil {
					fmt.Println("VERIF-INFRA:", err)
					rec.Label("inconclusive:infrastructure")
					return
				}
			}
			dbPath = d.Path()
			stalled = func(c context.Context, r *proto.Request) error { _, err := d.QueryWithContext(c, r, false); return err }
			attempt = func(c context.Context, r *proto.Request, _ proto.ConsistencyLevel) error {
				_, err := d.QueryWithContext(c, r, false)
				return err
			}
			applied = func() uint64 { return 0 }
		} else {
			s, ln, err := c17NewStore(filepath.Join(dir, "node"), bound)
			if err != nil {
				fmt.Println("VERIF-INFRA: single-node store did not come up:", err)
				rec.Label("inconclusive:infrastructure")
				return
			}
			defer ln.Close()
			defer s.Close(true)
			if _, _, err := s.Execute(ctx, executeRequestFromStrings([]string{c17Schema, c17Rows}, false, false)); err != nil {
				fmt.Println("VERIF-INFRA:", err)
				rec.Label("inconclusive:infrastructure")
				return
			}
			dbPath = s.dbPath
			stalled = func(c context.Context, r *proto.Request) error {
				_, err := s.db.QueryWithContext(c, r, false)
				return err
			}
			attempt = func(c context.Context, r *proto.Request, lvl proto.ConsistencyLevel) error {
				_, _, _, err := s.Query(c, &proto.QueryRequest{Request: r, Level: lvl})
				return err
			}
			applied = s.DBAppliedIndex
		}
		snapDir := filepath.Join(dir, "snap")
		os.MkdirAll(snapDir, 0o755)
		afterDir := filepath.Join(dir, "after")
		os.MkdirAll(afterDir, 0o755)
		levels := []proto.ConsistencyLevel{proto.ConsistencyLevel_NONE, proto.ConsistencyLevel_WEAK, proto.ConsistencyLevel_STRONG}

		for i := 0; i < 2; i++ {
			var tx c17Text
			for tx = g.text(); tx.Kind == "read"; tx = g.text() {
			}
			lvl := levels[g.rng.IntN(len(levels))]
			rec.Case(true, fmt.Sprintf("%s|%s|%q", target, lvl, tx.SQL))
			rec.Sample(fmt.Sprintf("%s bound=%d level=%s %q", target, bound, lvl, tx.SQL))
			rec.Label("target:" + target)
			rec.Label("level:" + lvl.String())
			rec.Label("text:" + tx.Kind)

			before, err := c17Snap(dbPath, snapDir)
			if err != nil {
				fmt.Println("VERIF-INFRA:", err)
				rec.Label("inconclusive:infrastructure")
				return
			}
			idx0 := applied()

			rctx, release := context.WithCancel(ctx)
			waitReaders := c17ParkReaders(rctx, stalled, bound)
			if !c17Saturated(stalled) {
				release()
				waitReaders()
				rec.Label("pool:not-saturated")
				continue
			}
			rec.Label("pool:saturated")
			req := &proto.Request{Statements: []*proto.Statement{{Sql: tx.SQL}}}
			if g.pct(80) {
				c17Preprocess(req, "query", lvl == proto.ConsistencyLevel_STRONG)
			}
			actx, acancel := context.WithTimeout(ctx, 2500*time.Millisecond)
			finished := make(chan error, 1)
			go func() { finished <- attempt(actx, req, lvl) }()
			returned := false
			select {
			case <-finished:
				returned = true
				rec.Label("attempt:returned-while-saturated")
			case <-time.After(3 * time.Second):
				rec.Label("attempt:blocked-until-readers-left")
			}
			release() // the stalled readers go away
			waitReaders()
			if !returned {
				// e.g. a strong read waiting in the apply loop for a read-only connection: it may now complete
				select {
				case <-finished:
				case <-time.After(60 * time.Second):
					acancel()
					fmt.Printf("VERIF-INFRA: " + "query attempt did not return after the readers left" + "\n")
					rec.Label("inconclusive:infrastructure")
					return
				}
			}
			acancel()
			after, err := c17Snap(dbPath, afterDir)
			if err != nil {
				fmt.Println("VERIF-INFRA:", err)
				rec.Label("inconclusive:infrastructure")
				return
			}
			if after != before || applied() != idx0 {
				sig := "C17/query-endpoint-modified-db{pool=saturated}"
				if rec.KnownHit(sig, "with every read-only connection busy a query-endpoint request is run on the read-write connection") {
					return
				}
				rt.Fatalf("%s", rec.Violation(sig, "%s query at level %s of %q, sent while all %d read-only connection(s) were held by stalled readers, changed the database (DB-applied index %d -> %d):\nbefore:\n%s\nafter:\n%s",
					target, lvl, tx.SQL, bound, idx0, applied(), before, after))
			}
		}
	})
}
