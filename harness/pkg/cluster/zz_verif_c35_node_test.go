package cluster

// C35 unit "node": the hostile streams (now with the full range of declared
// frame lengths, 2^31 .. 2^64-1, and arbitrary mux header bytes) are sent over
// TCP to a node running in a CHILD PROCESS: tcp.Mux + cluster.Service on
// 127.0.0.1:0 over the recording fakes of unit "frames", with the address
// space of the child limited (RLIMIT_AS = current size + 4 GiB) so that an
// attempt to allocate what a length prefix declares fails deterministically
// instead of endangering the machine. After every stream the parent
//   * asks the child (stdin/stdout control channel) for its cumulative heap
//     allocation counter and the fake methods that were called,
//   * opens a fresh connection and requires a correct answer to GET_NODE_META
//     ("node still serving after the input").
// A dead child is the crash the property forbids.

import (
	"crypto/tls"

	"bufio"
	"bytes"
	"encoding/binary"
	"encoding/hex"
	"fmt"
	"github.com/rqlite/rqlite/v10/testdata/x509"
	"io"
	"math/rand"
	"net"
	"os"
	"os/exec"
	"strconv"
	"strings"
	"sync"
	"syscall"
	"testing"
	"time"

	"github.com/rqlite/rqlite/v10/cluster/proto"
	"github.com/rqlite/rqlite/v10/internal/verif/vstat"
	"github.com/rqlite/rqlite/v10/tcp"
	pb "google.golang.org/protobuf/proto"
	"pgregory.net/rapid"
)

// ------------------------------------------------------------------ child ----

func TestVerif_C35_NodeChild(t *testing.T) {
	if os.Getenv("VERIF_C35_CHILD") == "" {
		t.Skip("helper process for TestVerif_C35_Node")
	}
	// limit the address space: current size + 4 GiB
	if b, err := os.ReadFile("/proc/self/statm"); err == nil {
		f := strings.Fields(string(b))
		if pages, err := strconv.ParseUint(f[0], 10, 64); err == nil {
			lim := pages*uint64(os.Getpagesize()) + 4<<30
			syscall.Setrlimit(syscall.RLIMIT_AS, &syscall.Rlimit{Cur: lim, Max: lim})
		}
	}
	calls := &c35Rec{}
	ln, err := c35Listen()
	if err != nil {
		fmt.Println("ERR", err)
		os.Exit(3)
	}
	var mux *tcp.Mux
	if os.Getenv("VERIF_C35_CHILD_TLS") != "" {
		mux, err = tcp.NewTLSMux(ln, nil, x509.CertExampleDotComFile(""), x509.KeyExampleDotComFile(""))
	} else {
		mux, err = tcp.NewMux(ln, nil)
	}
	if err != nil {
		fmt.Println("ERR", err)
		os.Exit(3)
	}
	mux.Logger.SetOutput(io.Discard)
	svc, err := c35NewService(calls)
	if err != nil {
		fmt.Println("ERR", err)
		os.Exit(3)
	}
	svc.ln = mux.Listen(MuxClusterHeader)
	svc.addr = ln.Addr()
	svc.SetAPIAddr("127.0.0.1:4001")
	go mux.Serve()
	if err := svc.Open(); err != nil {
		fmt.Println("ERR", err)
		os.Exit(3)
	}
	fmt.Println("ADDR", ln.Addr().String())
	in := bufio.NewReader(os.Stdin)
	for {
		line, err := in.ReadString('\n')
		if err != nil {
			os.Exit(0)
		}
		switch strings.TrimSpace(line) {
		case "STAT":
			fmt.Printf("STAT %d %s\n", c35HeapAllocs(), strings.Join(calls.take(), ","))
		case "QUIT":
			os.Exit(0)
		}
	}
}

// ----------------------------------------------------------------- parent ----

type c35Node struct {
	cmd    *exec.Cmd
	stdin  io.WriteCloser
	stdout *bufio.Reader
	addr   string
	errMu  sync.Mutex
	errBuf bytes.Buffer
	done   chan struct{}
}

type c35LimitedWriter struct {
	n *c35Node
}

func (w c35LimitedWriter) Write(p []byte) (int, error) {
	w.n.errMu.Lock()
	if w.n.errBuf.Len() < 64<<10 {
		w.n.errBuf.Write(p)
	}
	w.n.errMu.Unlock()
	return len(p), nil
}

func c35StartNode(useTLS bool) (*c35Node, error) {
	self := os.Getenv("VERIF_SELF")
	if self == "" {
		self = os.Args[0]
	}
	cmd := exec.Command(self, "-test.run", "^TestVerif_C35_NodeChild$", "-test.timeout", "0")
	env := []string{"VERIF_C35_CHILD=1"}
	if useTLS {
		env = append(env, "VERIF_C35_CHILD_TLS=1")
	}
	for _, e := range os.Environ() {
		if !strings.HasPrefix(e, "VERIF_STATS_DIR=") && !strings.HasPrefix(e, "VERIF_C35_CHILD") {
			env = append(env, e)
		}
	}
	cmd.Env = env
	n := &c35Node{cmd: cmd, done: make(chan struct{})}
	var err error
	if n.stdin, err = cmd.StdinPipe(); err != nil {
		return nil, err
	}
	so, err := cmd.StdoutPipe()
	if err != nil {
		return nil, err
	}
	cmd.Stderr = c35LimitedWriter{n}
	if err := cmd.Start(); err != nil {
		return nil, err
	}
	n.stdout = bufio.NewReader(so)
	line, err := n.stdout.ReadString('\n')
	if err != nil || !strings.HasPrefix(line, "ADDR ") {
		cmd.Process.Kill()
		cmd.Wait()
		return nil, fmt.Errorf("child did not start: %q %v stderr=%s", line, err, n.stderr())
	}
	n.addr = strings.TrimSpace(strings.TrimPrefix(line, "ADDR "))
	go func() { cmd.Wait(); close(n.done) }()
	return n, nil
}

func (n *c35Node) stderr() string {
	n.errMu.Lock()
	defer n.errMu.Unlock()
	s := n.errBuf.String()
	if len(s) > 600 {
		s = s[:600]
	}
	return s
}

func (n *c35Node) alive() bool {
	select {
	case <-n.done:
		return false
	default:
		return true
	}
}

func (n *c35Node) stop() {
	if n == nil {
		return
	}
	io.WriteString(n.stdin, "QUIT\n")
	n.stdin.Close()
	select {
	case <-n.done:
	case <-time.After(10 * time.Second):
		n.cmd.Process.Kill()
		<-n.done
	}
}

// stat returns the child's cumulative heap allocation counter and the fake
// methods called since the previous stat; ok=false if the child is gone.
func (n *c35Node) stat() (alloc uint64, calls []string, ok bool) {
	if _, err := io.WriteString(n.stdin, "STAT\n"); err != nil {
		return 0, nil, false
	}
	line, err := n.stdout.ReadString('\n')
	if err != nil {
		return 0, nil, false
	}
	f := strings.SplitN(strings.TrimSpace(line), " ", 3)
	if len(f) < 2 || f[0] != "STAT" {
		return 0, nil, false
	}
	alloc, _ = strconv.ParseUint(f[1], 10, 64)
	if len(f) == 3 && f[2] != "" {
		calls = strings.Split(f[2], ",")
	}
	return alloc, calls, true
}

// c35Send writes header+stream on a new connection, half-closes and reads
// everything until the node closes the connection.
// c35SendTLS does what c35Send does inside a TLS session (well-behaved
// handshake, then the hostile bytes as application data).
func c35SendTLS(addr string, data []byte) ([]byte, error) {
	raw, err := c35Dial(addr)
	if err != nil {
		return nil, err
	}
	defer raw.Close()
	c := tls.Client(raw, &tls.Config{InsecureSkipVerify: true})
	c.SetDeadline(time.Now().Add(60 * time.Second))
	if _, err := c.Write(data); err != nil {
		return nil, nil
	}
	c.CloseWrite()
	out, _ := io.ReadAll(io.LimitReader(c, 8<<20))
	return out, nil
}

func c35Send(addr string, data []byte) ([]byte, error) {
	conn, err := c35Dial(addr)
	if err != nil {
		return nil, err
	}
	defer conn.Close()
	if _, err := conn.Write(data); err != nil {
		return nil, nil // node closed early: a legitimate way to reject
	}
	conn.(*net.TCPConn).CloseWrite()
	conn.SetReadDeadline(time.Now().Add(60 * time.Second))
	out, _ := io.ReadAll(io.LimitReader(conn, 8<<20))
	return out, nil
}

// c35Probe checks that the node still answers a well-formed GET_NODE_META.
func c35Probe(addr string, useTLS bool) error {
	p, _ := pb.Marshal(&proto.Command{Type: proto.Command_COMMAND_TYPE_GET_NODE_META})
	msg := append([]byte{MuxClusterHeader}, c35Frame(uint64(len(p)), p)...)
	send := c35Send
	if useTLS {
		send = c35SendTLS
	}
	out, err := send(addr, msg)
	if err != nil {
		return err
	}
	if len(out) < 8 {
		return fmt.Errorf("short reply (%d bytes)", len(out))
	}
	sz := binary.LittleEndian.Uint64(out)
	if sz != uint64(len(out)-8) {
		return fmt.Errorf("bad reply framing")
	}
	nm := &proto.NodeMeta{}
	if err := pb.Unmarshal(out[8:], nm); err != nil {
		return err
	}
	if nm.Url != "http://127.0.0.1:4001" || nm.CommitIndex != 5 {
		return fmt.Errorf("wrong node meta %v", nm)
	}
	return nil
}

func TestVerif_C35_Node(t *testing.T) {
	rec := vstat.New(t, "C35", "node",
		"same stream grammar as unit frames but declared frame lengths over the full range (2^10..2^63 +-1, 2^64-1-k) and a generated mux header byte (75% the cluster header 2, else any other byte incl. the Raft header 1, which is not registered here); each stream is sent on its own TCP connection to a child-process node (tcp.Mux + cluster.Service, RLIMIT_AS-limited). Oracle: child alive and answering GET_NODE_META after the stream; child heap-allocation growth <= 4 x bytes sent + 3 MiB per possible frame; no mutating fake method without the valid password; nothing at all reaches the service behind a wrong mux header. non-trivial = wrong mux header, or a declared length >= 2^31, or a segment that is not a plain well-formed frame; distinct by header+stream bytes")
	c35NodeBody(t, rec, false)
}

// TestVerif_C35_NodeTLS: the same against a child whose inter-node port is a
// TLS mux (tcp.NewTLSMux). Each stream travels either raw (optionally behind
// bytes shaped like a TLS record / SSLv2 hello / plaintext protocol: nothing
// of it may reach the cluster service) or inside a real TLS session (then the
// oracle of unit node applies unchanged). Liveness is probed over TLS.
func TestVerif_C35_NodeTLS(t *testing.T) {
	rec := vstat.New(t, "C35", "node-tls",
		"as unit node, child node with a TLS mux; transport per case {raw bytes on the TLS port, TLS-record/SSLv2/plaintext-shaped prefix + stream, real TLS session carrying mux header + stream}; oracle: child alive and answering GET_NODE_META over TLS, allocation bound, no mutating call without the valid password, and nothing reaches the service unless a TLS session was established; non-trivial as unit node or raw transport; distinct by transport+bytes")
	c35NodeBody(t, rec, true)
}

var c35TLSPrefixes = [][]byte{
	nil, {0x16, 0x03, 0x01, 0xff, 0xff}, {0x16, 0x03, 0x03, 0x40, 0x01}, {0x80, 0x2e, 0x01, 0x03, 0x01}, {0x81, 0xff, 0x01},
	{0x15, 0x03, 0x03, 0x00, 0x02, 0x02, 0x28}, {0x16, 0x03, 0x01, 0x00, 0x00}, {0x17, 0x03, 0x03, 0xff, 0xff}, {0x16, 0x03, 0x01},
}

func c35NodeBody(t *testing.T, rec *vstat.Rec, useTLS bool) {
	var node *c35Node
	defer func() { node.stop() }()
	var maxPerFrame uint64
	rapid.Check(t, func(rt *rapid.T) {
		if node == nil || !node.alive() {
			var err error
			if node, err = c35StartNode(useTLS); err != nil {
				node = nil
				rec.Label("inconclusive:infrastructure")
				return
			}
		}
		header := byte(MuxClusterHeader)
		if rapid.IntRange(0, 3).Draw(rt, "wrong-header") == 0 {
			header = rapid.Byte().Filter(func(b byte) bool { return b != MuxClusterHeader }).Draw(rt, "header")
		}
		s := c35GenStream(rt, ^uint64(0))
		in := s.bytes()
		maxDecl := c35MaxDeclared(in)
		nontrivial := header != MuxClusterHeader || maxDecl >= 1<<31
		for _, g := range s.Segs {
			k := g.Kind
			if i := strings.Index(k, ":"); i > 0 {
				k = k[:i]
			}
			rec.Label("seg:" + k)
			if k != "frame" {
				nontrivial = true
			}
		}
		switch {
		case header != MuxClusterHeader:
			rec.Label("wrong-mux-header")
		case maxDecl >= 1<<48:
			rec.Label("declared>=2^48")
		case maxDecl >= 1<<31:
			rec.Label("declared-2^31..2^48")
		case maxDecl > uint64(len(in)):
			rec.Label("declared>sent")
		default:
			rec.Label("declared<=sent")
		}
		wire := append([]byte{header}, in...)
		rawOnTLS := false
		if useTLS && rapid.IntRange(0, 2).Draw(rt, "raw-on-tls-port") > 0 {
			// not a TLS session: optional record-shaped prefix, then the stream
			rawOnTLS = true
			pre := c35TLSPrefixes[rapid.IntRange(0, len(c35TLSPrefixes)-1).Draw(rt, "tls-prefix")]
			wire = append(append([]byte(nil), pre...), wire...)
			rec.Label("transport:raw-on-tls-port")
			nontrivial = true
		} else if useTLS {
			rec.Label("transport:tls-session")
		}
		rec.Case(nontrivial, hex.EncodeToString(wire))
		desc := fmt.Sprintf("mux-header=%d stream=[%s] bytes(%d)=%s", header, s.kinds(), len(in), hex.EncodeToString(in))
		rec.Sample(desc)

		a0, _, ok := node.stat()
		if !ok {
			node.stop()
			node = nil
			rec.Label("inconclusive:infrastructure")
			return
		}
		var serr error
		if useTLS && !rawOnTLS {
			_, serr = c35SendTLS(node.addr, wire)
		} else {
			_, serr = c35Send(node.addr, wire)
		}
		a1, got, ok := node.stat()
		var perr error
		if ok {
			perr = c35Probe(node.addr, useTLS)
		}
		if !ok || perr != nil {
			// give a dying child a moment to be reaped so that stderr is complete
			select {
			case <-node.done:
			case <-time.After(5 * time.Second):
			}
			if !node.alive() {
				se := node.stderr()
				sig := "C35/node-crash"
				switch {
				case strings.Contains(se, "makeslice") || strings.Contains(se, "out of memory") || strings.Contains(se, "cannot allocate"):
					sig = "C35/unbounded-frame-length"
				case c35HasNilBackupStream(in):
					sig = "C35/nil-backup-request"
				}
				what := "node process died after a hostile stream: " + strings.ReplaceAll(se, "\n", " / ")
				if len(what) > 400 {
					what = what[:400]
				}
				node = nil
				if rec.KnownHit(sig, what) {
					return
				}
				rt.Fatalf("%s", rec.Violation(sig, "%s :: %s", what, desc))
			}
			sig := "C35/node-not-serving"
			what := fmt.Sprintf("node alive but no longer answers GET_NODE_META correctly: %v (send err %v)", perr, serr)
			if rec.KnownHit(sig, what) {
				return
			}
			rt.Fatalf("%s", rec.Violation(sig, "%s :: %s", what, desc))
		}
		alloc := a1 - a0
		nFrames := c35CountFrames(in)
		if bound := c35AllocBound(len(wire), nFrames); alloc > bound {
			sig := "C35/unbounded-frame-length"
			if maxDecl <= uint64(len(in)) {
				sig = "C35/alloc{header=" + strconv.Itoa(int(header)) + "}"
			}
			what := fmt.Sprintf("node allocated %d bytes for %d bytes sent (bound %d)", alloc, len(wire), bound)
			if rec.KnownHit(sig, what) {
				return
			}
			rt.Fatalf("%s", rec.Violation(sig, "%s :: %s", what, desc))
		}
		if per := alloc / uint64(nFrames+1); per > maxPerFrame {
			maxPerFrame = per
			rec.Extra("max_alloc_per_frame_in_passing_cases", per)
		}
		if rawOnTLS && len(got) > 0 {
			sig := "C35/tls-port-serves-plaintext"
			what := fmt.Sprintf("bytes sent without a TLS session reached the cluster service: %v", got)
			if rec.KnownHit(sig, what) {
				return
			}
			rt.Fatalf("%s", rec.Violation(sig, "%s :: %s", what, desc))
		}
		if header != MuxClusterHeader && len(got) > 0 {
			sig := "C35/wrong-mux-header-reaches-service"
			what := fmt.Sprintf("stream behind mux header %d reached the cluster service: %v", header, got)
			if rec.KnownHit(sig, what) {
				return
			}
			rt.Fatalf("%s", rec.Violation(sig, "%s :: %s", what, desc))
		}
		if !s.AllowValid && !bytes.Contains(in, []byte(c35Password)) {
			for _, c := range got {
				if c35Mutating[c] {
					sig := "C35/state-change-without-permission{call=" + c + "}"
					what := "stream without valid credentials reached mutating method " + c
					if rec.KnownHit(sig, what) {
						return
					}
					rt.Fatalf("%s", rec.Violation(sig, "%s :: %s", what, desc))
				}
			}
		}
		if len(got) > 0 {
			rec.Label("reached-store")
		}
	})
}

// ---- infrastructure helpers (not part of any oracle) ----

// c35Dial connects to addr from a random loopback source address 127.x.y.z.
// Sockets of a client that closes (or half-closes) first stay in TIME_WAIT for
// 60 s; with 127.0.0.1 as the only source address, thousands of short
// connections per second from many check processes would leave no free port
// for bind(127.0.0.1:0), i.e. for every new listener on the machine. Spreading
// the client side over 127/8 keeps those sockets away from 127.0.0.1. A few
// retries with back-off absorb transient failures.
func c35Dial(addr string) (net.Conn, error) {
	var last error
	for try := 0; try < 5; try++ {
		d := net.Dialer{Timeout: 10 * time.Second, LocalAddr: &net.TCPAddr{IP: net.IPv4(127, byte(1+rand.Intn(250)), byte(rand.Intn(256)), byte(1+rand.Intn(250)))}}
		c, err := d.Dial("tcp", addr)
		if err == nil {
			return c, nil
		}
		last = err
		time.Sleep(time.Duration(25*(try+1)) * time.Millisecond)
	}
	return nil, last
}

// c35Listen listens on 127.0.0.1:0, retrying a few times.
func c35Listen() (net.Listener, error) {
	var last error
	for try := 0; try < 5; try++ {
		ln, err := net.Listen("tcp", "127.0.0.1:0")
		if err == nil {
			return ln, nil
		}
		last = err
		time.Sleep(time.Duration(50*(try+1)) * time.Millisecond)
	}
	return nil, last
}

// c35Retry runs f up to five times with a short back-off.
func c35Retry(f func() error) error {
	var last error
	for try := 0; try < 5; try++ {
		if last = f(); last == nil {
			return nil
		}
		time.Sleep(time.Duration(50*(try+1)) * time.Millisecond)
	}
	return last
}
