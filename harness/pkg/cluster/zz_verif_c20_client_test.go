package cluster

// C20 unit "client": "executed once on the leader". One call of the inter-node
// client (the thing proxy.Proxy forwards with) against the real
// cluster.Service over loopback TCP must lead to AT MOST ONE execution on the
// remote database, and to exactly one when the call reports success -- also
// when the leader is slower than the caller's timeout and when pooled
// connections went stale (the service closes idle connections after
// connTimeout, which is how stale pool entries arise in production).
//
// Generated: a sequence of steps {request of kind execute/query/request/load
// with fast or slow (3 x timeout) execution, idle pause longer than the
// service's idle timeout, burst of fast requests to fill the pool}. Every
// request carries a unique tag; the fake Database counts executions per tag.
// The oracle never uses wall-clock: whatever the timing, a tag executed twice
// is a violation; timing only steers which paths are reached.

import (
	"context"
	"fmt"
	"io"
	"math/rand"
	"net"
	"strings"
	"sync"
	"testing"
	"time"

	command "github.com/rqlite/rqlite/v10/command/proto"
	"github.com/rqlite/rqlite/v10/internal/verif/vstat"
	"pgregory.net/rapid"
)

const (
	c20Timeout = 60 * time.Millisecond
	c20Slow    = 3 * c20Timeout
	c20Idle    = 25 * time.Millisecond // service-side idle timeout
)

type c20DB struct {
	mu    sync.Mutex
	count map[string]int
	slow  map[string]bool
	wg    sync.WaitGroup
}

func (d *c20DB) run(tag string) {
	d.wg.Add(1)
	defer d.wg.Done()
	d.mu.Lock()
	d.count[tag]++
	slow := d.slow[tag]
	d.mu.Unlock()
	if slow {
		time.Sleep(c20Slow)
	}
}

func c20Tag(r *command.Request) string {
	for _, s := range r.GetStatements() {
		if i := strings.Index(s.Sql, "tag-"); i >= 0 {
			return s.Sql[i:]
		}
	}
	return "?"
}

func (d *c20DB) Execute(ctx context.Context, er *command.ExecuteRequest) ([]*command.ExecuteQueryResponse, uint64, error) {
	tag := c20Tag(er.GetRequest())
	d.run(tag)
	return []*command.ExecuteQueryResponse{{Result: &command.ExecuteQueryResponse_E{E: &command.ExecuteResult{RowsAffected: 1, Error: tag}}}}, 7, nil
}
func (d *c20DB) Query(ctx context.Context, qr *command.QueryRequest) ([]*command.QueryRows, command.ConsistencyLevel, uint64, error) {
	tag := c20Tag(qr.GetRequest())
	d.run(tag)
	return []*command.QueryRows{{Columns: []string{tag}}}, qr.GetLevel(), 8, nil
}
func (d *c20DB) Request(ctx context.Context, rr *command.ExecuteQueryRequest) ([]*command.ExecuteQueryResponse, uint64, uint64, error) {
	tag := c20Tag(rr.GetRequest())
	d.run(tag)
	return []*command.ExecuteQueryResponse{{Result: &command.ExecuteQueryResponse_Error{Error: tag}}}, 1, 9, nil
}
func (d *c20DB) Backup(ctx context.Context, br *command.BackupRequest, dst io.Writer) error {
	return nil
}
func (d *c20DB) Load(ctx context.Context, lr *command.LoadRequest) error {
	d.run(string(lr.GetData()))
	return nil
}

type c20Mgr struct{}

func (c20Mgr) LeaderAddr() (string, error)                                     { return "", nil }
func (c20Mgr) CommitIndex() (uint64, error)                                    { return 1, nil }
func (c20Mgr) Remove(ctx context.Context, rn *command.RemoveNodeRequest) error { return nil }
func (c20Mgr) Notify(n *command.NotifyRequest) error                           { return nil }
func (c20Mgr) Join(n *command.JoinRequest) error                               { return nil }
func (c20Mgr) Stepdown(wait bool, id string) error                             { return nil }

// c20Dialer remembers the connections it made so that the case can close them
// all at its end (the client has no Close; pooled connections would otherwise
// keep service goroutines alive until the service's idle timeout).
type c20Dialer struct {
	mu    sync.Mutex
	conns []net.Conn
}

func (d *c20Dialer) Dial(addr string, timeout time.Duration) (net.Conn, error) {
	c, err := c20Dial(addr)
	if err == nil {
		d.mu.Lock()
		d.conns = append(d.conns, c)
		d.mu.Unlock()
	}
	return c, err
}

func (d *c20Dialer) closeAll() {
	d.mu.Lock()
	defer d.mu.Unlock()
	for _, c := range d.conns {
		c.Close()
	}
}

type c20Step struct {
	Kind string // execute|query|request|load|idle|burst
	Slow bool
}

func TestVerif_C20_Client(t *testing.T) {
	rec := vstat.New(t, "C20", "client",
		"rapid: 1-6 steps drawn from {execute, query, request, load} x {fast, slow = 3 x caller timeout} plus {idle pause, burst of 3 fast requests}; service idle timeout {25 ms: pooled connections go stale during pauses, 30 s: pooled connections stay open and are reused}; real cluster.Client (retries=0, as the HTTP layer uses by default) -> real cluster.Service over loopback TCP -> counting fake Database; non-trivial = the sequence contains a slow request, or a request after an idle pause; distinct by step sequence")
	rapid.Check(t, func(rt *rapid.T) {
		n := rapid.IntRange(1, 6).Draw(rt, "steps")
		var steps []c20Step
		for i := 0; i < n; i++ {
			k := rapid.SampledFrom([]string{"execute", "execute", "query", "request", "load", "idle", "burst"}).Draw(rt, "kind")
			st := c20Step{Kind: k}
			if k != "idle" && k != "burst" {
				st.Slow = rapid.IntRange(0, 2).Draw(rt, "slow") == 0
			}
			steps = append(steps, st)
		}
		// The service's idle timeout decides what becomes of a pooled connection:
		// short = it goes stale (closed by the service) between requests; long (the
		// production value is 30 s) = it stays open, so whatever is still in flight
		// on it is read by the next request that gets it from the pool.
		idle := rapid.SampledFrom([]time.Duration{c20Idle, 30 * time.Second}).Draw(rt, "service-idle-timeout")
		canon := fmt.Sprintf("idle=%v %+v", idle, steps)
		nontrivial := false
		seenIdle := false
		for _, s := range steps {
			if s.Slow || (seenIdle && s.Kind != "idle") {
				nontrivial = true
			}
			if s.Kind == "idle" {
				seenIdle = true
			}
		}
		rec.Case(nontrivial, canon)
		rec.Sample(canon)

		ln, err := c20Listen()
		if err != nil {
			rec.Label("inconclusive:infrastructure")
			return
		}
		db := &c20DB{count: map[string]int{}, slow: map[string]bool{}}
		svc := New(ln, db, c20Mgr{}, nil)
		svc.logger.SetOutput(io.Discard)
		svc.connTimeout = idle
		if err := svc.Open(); err != nil {
			ln.Close()
			rec.Label("inconclusive:infrastructure")
			return
		}
		dialer := &c20Dialer{}
		defer func() {
			svc.Close()
			dialer.closeAll()
			db.wg.Wait()
		}()
		if idle == c20Idle {
			rec.Label("service-idle:short")
		} else {
			rec.Label("service-idle:long")
		}
		cl := NewClient(dialer, 5*time.Second)
		ctx := context.Background()

		seq := 0
		do := func(kind string, slow bool) (tag string, err error) {
			seq++
			tag = fmt.Sprintf("tag-%d-%s", seq, kind)
			db.mu.Lock()
			db.slow[tag] = slow
			db.mu.Unlock()
			req := &command.Request{Statements: []*command.Statement{{Sql: "INSERT INTO t VALUES('x') -- " + tag}}}
			switch kind {
			case "execute":
				var res []*command.ExecuteQueryResponse
				res, _, err = cl.Execute(ctx, &command.ExecuteRequest{Request: req}, svc.Addr(), nil, c20Timeout, 0)
				if err == nil && (len(res) != 1 || res[0].GetE().GetError() != tag) {
					err = fmt.Errorf("HARNESS-RESULT-MISMATCH %v", res)
				}
			case "query":
				var res []*command.QueryRows
				res, _, err = cl.Query(ctx, &command.QueryRequest{Request: req, Level: command.ConsistencyLevel_STRONG}, svc.Addr(), nil, c20Timeout, 0)
				if err == nil && (len(res) != 1 || len(res[0].Columns) != 1 || res[0].Columns[0] != tag) {
					err = fmt.Errorf("HARNESS-RESULT-MISMATCH %v", res)
				}
			case "request":
				var res []*command.ExecuteQueryResponse
				res, _, _, err = cl.Request(ctx, &command.ExecuteQueryRequest{Request: req}, svc.Addr(), nil, c20Timeout, 0)
				if err == nil && (len(res) != 1 || res[0].GetError() != tag) {
					err = fmt.Errorf("HARNESS-RESULT-MISMATCH %v", res)
				}
			case "load":
				err = cl.Load(ctx, &command.LoadRequest{Data: []byte(tag)}, svc.Addr(), nil, c20Timeout, 0)
			}
			return tag, err
		}

		for i, s := range steps {
			switch s.Kind {
			case "idle":
				rec.Label("step:idle")
				time.Sleep(2 * c20Idle)
				continue
			case "burst":
				rec.Label("step:burst")
				for j := 0; j < 3; j++ {
					do("execute", false)
				}
				continue
			}
			tag, err := do(s.Kind, s.Slow)
			// let a slow execution that is still running finish counting
			if s.Slow {
				time.Sleep(c20Slow + c20Timeout)
			}
			db.mu.Lock()
			cnt := db.count[tag]
			db.mu.Unlock()
			rec.Label("step:" + s.Kind)
			if s.Slow {
				rec.Label("slow")
			}
			if err != nil {
				rec.Label("client-error")
			} else {
				rec.Label("client-ok")
			}
			desc := fmt.Sprintf("step %d %+v of %s: client error=%v, executions of %s on the remote node=%d", i, s, canon, err, tag, cnt)
			if err != nil && strings.Contains(err.Error(), "HARNESS-RESULT-MISMATCH") {
				sig := "C20/client-result-of-other-request{op=" + s.Kind + "}"
				if rec.KnownHit(sig, "client returned another request's result") {
					continue
				}
				rt.Fatalf("%s", rec.Violation(sig, "client returned a result that belongs to another request :: %s", desc))
			}
			if cnt > 1 {
				sig := "C20/forwarded-request-executed-twice{op=" + s.Kind + "}"
				what := "one inter-node client call executed the request more than once on the remote node (retry after the request was delivered)"
				if rec.KnownHit(sig, what) {
					continue
				}
				rt.Fatalf("%s", rec.Violation(sig, "%s :: %s", what, desc))
			}
			if err == nil && cnt != 1 {
				sig := "C20/forwarded-success-without-execution{op=" + s.Kind + "}"
				what := "client reported success but the request was not executed exactly once"
				if rec.KnownHit(sig, what) {
					continue
				}
				rt.Fatalf("%s", rec.Violation(sig, "%s :: %s", what, desc))
			}
		}
	})
}

// ---- infrastructure helpers (not part of any oracle) ----

// c20Dial connects to addr from a random loopback source address 127.x.y.z.
// Sockets of a client that closes (or half-closes) first stay in TIME_WAIT for
// 60 s; with 127.0.0.1 as the only source address, thousands of short
// connections per second from many check processes would leave no free port
// for bind(127.0.0.1:0), i.e. for every new listener on the machine. Spreading
// the client side over 127/8 keeps those sockets away from 127.0.0.1. A few
// retries with back-off absorb transient failures.
func c20Dial(addr string) (net.Conn, error) {
	var last error
	for try := 0; try < 5; try++ {
		d := net.Dialer{Timeout: 10 * time.Second, LocalAddr: &net.TCPAddr{IP: net.IPv4(127, byte(1+rand.Intn(250)), byte(rand.Intn(256)), byte(1+rand.Intn(250)))}}
		c, err := d.Dial("tcp", addr)
		if err == nil {
			return c, nil
		}
		last = err
		time.Sleep(time.Duration(25*(try+1)) * time.Millisecond)
	}
	return nil, last
}

// c20Listen listens on 127.0.0.1:0, retrying a few times.
func c20Listen() (net.Listener, error) {
	var last error
	for try := 0; try < 5; try++ {
		ln, err := net.Listen("tcp", "127.0.0.1:0")
		if err == nil {
			return ln, nil
		}
		last = err
		time.Sleep(time.Duration(50*(try+1)) * time.Millisecond)
	}
	return nil, last
}

// c20Retry runs f up to five times with a short back-off.
func c20Retry(f func() error) error {
	var last error
	for try := 0; try < 5; try++ {
		if last = f(); last == nil {
			return nil
		}
		time.Sleep(time.Duration(50*(try+1)) * time.Millisecond)
	}
	return last
}
