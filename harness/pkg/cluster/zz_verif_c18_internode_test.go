package cluster

// C18 (inter-node half): every inter-node command performs its action, and
// returns or streams database content, only if the credentials carried by the
// command are authorized for the command's permission(s).
//
// Set-up: a real cluster.Service behind a real tcp.Mux on 127.0.0.1:0 with a
// real auth.CredentialsStore loaded from a generated credentials file, over
// recording fakes for Database and Manager whose every result carries a
// sentinel secret. The client is a raw TCP client: it writes the mux header
// byte, one length-prefixed Command, half-closes the connection and then reads
// EVERYTHING until the server closes (the regular client stops after the first
// response frame).
//
// Oracle (independent of the handlers): command -> permission table from the
// documented security model (DESIGN.md Appendix C) and the C19 reference rule
// restated in c18Model.aa.

import (
	"bytes"
	"compress/gzip"
	"context"
	"encoding/binary"
	"encoding/json"
	"fmt"
	"io"
	"math/rand"
	"net"
	"sort"
	"strings"
	"sync"
	"testing"
	"time"

	"github.com/rqlite/rqlite/v10/auth"
	"github.com/rqlite/rqlite/v10/cluster/proto"
	command "github.com/rqlite/rqlite/v10/command/proto"
	"github.com/rqlite/rqlite/v10/internal/verif/vstat"
	"github.com/rqlite/rqlite/v10/tcp"
	pb "google.golang.org/protobuf/proto"
	"pgregory.net/rapid"
)

const c18Sentinel = "VERIF-SENTINEL-5ecRe7-c18"

// ---------------------------------------------------------------- fakes ----

type c18Recorder struct {
	mu    sync.Mutex
	calls []string
}

func (r *c18Recorder) add(s string) { r.mu.Lock(); r.calls = append(r.calls, s); r.mu.Unlock() }
func (r *c18Recorder) take() []string {
	r.mu.Lock()
	defer r.mu.Unlock()
	c := r.calls
	r.calls = nil
	return c
}

type c18DB struct{ rec *c18Recorder }

func c18Rows() *command.QueryRows {
	return &command.QueryRows{
		Columns: []string{"secret"},
		Types:   []string{"text"},
		Values: []*command.Values{{Parameters: []*command.Parameter{
			{Value: &command.Parameter_S{S: c18Sentinel}},
		}}},
	}
}

func (d *c18DB) Execute(ctx context.Context, er *command.ExecuteRequest) ([]*command.ExecuteQueryResponse, uint64, error) {
	d.rec.add("db.Execute")
	return []*command.ExecuteQueryResponse{{Result: &command.ExecuteQueryResponse_E{
		E: &command.ExecuteResult{LastInsertId: 7, RowsAffected: 1, Error: c18Sentinel}}}}, 77, nil
}

func (d *c18DB) Query(ctx context.Context, qr *command.QueryRequest) ([]*command.QueryRows, command.ConsistencyLevel, uint64, error) {
	d.rec.add("db.Query")
	return []*command.QueryRows{c18Rows()}, command.ConsistencyLevel_WEAK, 78, nil
}

func (d *c18DB) Request(ctx context.Context, rr *command.ExecuteQueryRequest) ([]*command.ExecuteQueryResponse, uint64, uint64, error) {
	d.rec.add("db.Request")
	return []*command.ExecuteQueryResponse{{Result: &command.ExecuteQueryResponse_Q{Q: c18Rows()}}}, 1, 79, nil
}

func (d *c18DB) Backup(ctx context.Context, br *command.BackupRequest, dst io.Writer) error {
	d.rec.add("db.Backup")
	_, err := dst.Write([]byte("SQLite format 3\x00" + c18Sentinel + strings.Repeat("D", 200)))
	return err
}

func (d *c18DB) Load(ctx context.Context, lr *command.LoadRequest) error {
	d.rec.add("db.Load")
	return nil
}

type c18Mgr struct{ rec *c18Recorder }

func (m *c18Mgr) LeaderAddr() (string, error)  { m.rec.add("mgr.LeaderAddr"); return "127.0.0.1:1", nil }
func (m *c18Mgr) CommitIndex() (uint64, error) { m.rec.add("mgr.CommitIndex"); return 5, nil }
func (m *c18Mgr) Remove(ctx context.Context, rn *command.RemoveNodeRequest) error {
	m.rec.add("mgr.Remove")
	return nil
}
func (m *c18Mgr) Notify(n *command.NotifyRequest) error { m.rec.add("mgr.Notify"); return nil }
func (m *c18Mgr) Join(n *command.JoinRequest) error     { m.rec.add("mgr.Join"); return nil }
func (m *c18Mgr) Stepdown(wait bool, id string) error   { m.rec.add("mgr.Stepdown"); return nil }

// methods that perform an action or return database content
var c18ActionCalls = map[string]bool{
	"db.Execute": true, "db.Query": true, "db.Request": true, "db.Backup": true, "db.Load": true,
	"mgr.Remove": true, "mgr.Notify": true, "mgr.Join": true, "mgr.Stepdown": true,
}

func c18Actions(calls []string) []string {
	var out []string
	for _, c := range calls {
		if c18ActionCalls[c] {
			out = append(out, c)
		}
	}
	return out
}

// ------------------------------------------------------- reference model ----

// c18User is one ENTRY of the credentials file, in file order. A key may be
// omitted from the entry (HasPw / HasPerms false) and a username may occur in
// several entries. Meaning of the file (documented rule, Appendix C): an entry
// defines its user completely -- absent password = empty password, absent
// perms = no permissions -- and the last entry for a username wins.
type c18User struct {
	Name     string
	HasPw    bool
	Pw       string
	HasPerms bool
	Perms    []string
}

type c18Model struct {
	pw    map[string]string
	perms map[string]map[string]bool
}

func c18Build(us []c18User) c18Model {
	m := c18Model{map[string]string{}, map[string]map[string]bool{}}
	for _, u := range us {
		pw := ""
		if u.HasPw {
			pw = u.Pw
		}
		m.pw[u.Name] = pw
		ps := map[string]bool{}
		if u.HasPerms {
			for _, p := range u.Perms {
				ps[p] = true
			}
		}
		m.perms[u.Name] = ps // a later entry replaces an earlier one completely
	}
	return m
}

func (m c18Model) grant(u, p string) bool {
	ps, ok := m.perms[u]
	return ok && (ps[p] || ps["all"])
}

// aa is the C19 rule: perm (or all) granted to "*", or a defined user with the
// right password holding perm (or all).
func (m c18Model) aa(u, pw, p string) bool {
	if m.grant("*", p) {
		return true
	}
	if u == "" {
		return false
	}
	stored, ok := m.pw[u]
	if !ok || stored != pw {
		return false
	}
	return m.grant(u, p)
}

// c18CredFile renders the entries as the TEXT of a credentials file; omitted
// keys are really absent from the JSON.
func c18CredFile(us []c18User) string {
	var es []string
	for _, u := range us {
		n, _ := json.Marshal(u.Name)
		parts := []string{`"username":` + string(n)}
		if u.HasPw {
			b, _ := json.Marshal(u.Pw)
			parts = append(parts, `"password":`+string(b))
		}
		if u.HasPerms {
			ps := u.Perms
			if ps == nil {
				ps = []string{}
			}
			b, _ := json.Marshal(ps)
			parts = append(parts, `"perms":`+string(b))
		}
		es = append(es, "{"+strings.Join(parts, ",")+"}")
	}
	return "[" + strings.Join(es, ",") + "]"
}

var c18PermVocab = []string{"execute", "query", "backup", "load", "remove", "join", "join-read-only",
	"join-read-replica", "leader-ops", "status", "ready", "snapshot", "ui"}

func c18GenUsers(rt *rapid.T) []c18User {
	n := rapid.IntRange(0, 5).Draw(rt, "entries")
	us := make([]c18User, 0, n)
	for i := 0; i < n; i++ {
		// usernames repeat: later entries redefine earlier ones
		u := c18User{Name: rapid.SampledFrom([]string{"u1", "u1", "u2", "u2", "*"}).Draw(rt, "name")}
		u.HasPw = rapid.IntRange(0, 3).Draw(rt, "has-password") > 0
		if u.HasPw {
			u.Pw = rapid.SampledFrom([]string{"p1", "p2", ""}).Draw(rt, "password")
		}
		u.HasPerms = rapid.IntRange(0, 3).Draw(rt, "has-perms") > 0
		if u.HasPerms {
			switch k := rapid.IntRange(0, 9).Draw(rt, "perm-kind"); {
			case k == 0:
				u.Perms = []string{"all"}
			case k == 1:
				u.Perms = nil
			default:
				u.Perms = rapid.SliceOfNDistinct(rapid.SampledFrom(c18PermVocab), 1, 4, rapid.ID[string]).Draw(rt, "perms")
			}
		}
		us = append(us, u)
	}
	return us
}

type c18Pres struct {
	Name  string
	Creds *proto.Credentials
}

func c18Presentations(m c18Model) []c18Pres {
	pwOf := func(u string) string {
		if pw, ok := m.pw[u]; ok {
			return pw
		}
		return "p1"
	}
	return []c18Pres{
		{"none", nil},
		{"empty", &proto.Credentials{}},
		{"u1-right", &proto.Credentials{Username: "u1", Password: pwOf("u1")}},
		{"u1-wrong", &proto.Credentials{Username: "u1", Password: pwOf("u1") + "x"}},
		{"u2-right", &proto.Credentials{Username: "u2", Password: pwOf("u2")}},
		{"u2-wrong", &proto.Credentials{Username: "u2", Password: "nope"}},
		{"unknown", &proto.Credentials{Username: "mallory", Password: "p1"}},
		{"star", &proto.Credentials{Username: "*", Password: ""}},
	}
}

// --------------------------------------------------------------- commands ----

type c18Cmd struct {
	Name string
	Make func() *proto.Command
	// required: every inner list is a conjunction; the command is authorized iff
	// some inner list is fully granted. nil = no documented permission.
	Required [][]string
	// Ambiguous: additional alternatives for which the documentation is not
	// decisive; when only these hold, either decision is accepted.
	Ambiguous [][]string
	Action    string                             // fake method performing the action
	RespError func(frame []byte) (string, error) // decodes the first response frame
}

func c18Decode[T interface {
	pb.Message
	GetError() string
}](mk func() T, gz bool) func([]byte) (string, error) {
	return func(frame []byte) (string, error) {
		if gz {
			zr, err := gzip.NewReader(bytes.NewReader(frame))
			if err != nil {
				return "", err
			}
			b, err := io.ReadAll(zr)
			if err != nil {
				return "", err
			}
			frame = b
		}
		m := mk()
		if err := pb.Unmarshal(frame, m); err != nil {
			return "", err
		}
		return m.GetError(), nil
	}
}

func c18Stmt(sql string) *command.Request {
	return &command.Request{Statements: []*command.Statement{{Sql: sql}}}
}

func c18Commands() []c18Cmd {
	T := func(t proto.Command_Type, r any) func() *proto.Command {
		return func() *proto.Command {
			c := &proto.Command{Type: t}
			switch v := r.(type) {
			case *command.ExecuteRequest:
				c.Request = &proto.Command_ExecuteRequest{ExecuteRequest: v}
			case *command.QueryRequest:
				c.Request = &proto.Command_QueryRequest{QueryRequest: v}
			case *command.ExecuteQueryRequest:
				c.Request = &proto.Command_ExecuteQueryRequest{ExecuteQueryRequest: v}
			case *command.BackupRequest:
				c.Request = &proto.Command_BackupRequest{BackupRequest: v}
			case *command.LoadRequest:
				c.Request = &proto.Command_LoadRequest{LoadRequest: v}
			case *command.RemoveNodeRequest:
				c.Request = &proto.Command_RemoveNodeRequest{RemoveNodeRequest: v}
			case *command.NotifyRequest:
				c.Request = &proto.Command_NotifyRequest{NotifyRequest: v}
			case *command.JoinRequest:
				c.Request = &proto.Command_JoinRequest{JoinRequest: v}
			case *command.StepdownRequest:
				c.Request = &proto.Command_StepdownRequest{StepdownRequest: v}
			}
			return c
		}
	}
	return []c18Cmd{
		{Name: "EXECUTE", Make: T(proto.Command_COMMAND_TYPE_EXECUTE, &command.ExecuteRequest{Request: c18Stmt("INSERT INTO t VALUES(1)")}),
			Required: [][]string{{"execute"}}, Action: "db.Execute",
			RespError: c18Decode(func() *proto.CommandExecuteResponse { return &proto.CommandExecuteResponse{} }, false)},
		{Name: "QUERY", Make: T(proto.Command_COMMAND_TYPE_QUERY, &command.QueryRequest{Request: c18Stmt("SELECT * FROM t")}),
			Required: [][]string{{"query"}}, Action: "db.Query",
			RespError: c18Decode(func() *proto.CommandQueryResponse { return &proto.CommandQueryResponse{} }, false)},
		{Name: "REQUEST", Make: T(proto.Command_COMMAND_TYPE_REQUEST, &command.ExecuteQueryRequest{Request: c18Stmt("SELECT * FROM t")}),
			Required: [][]string{{"query", "execute"}}, Action: "db.Request",
			RespError: c18Decode(func() *proto.CommandRequestResponse { return &proto.CommandRequestResponse{} }, false)},
		{Name: "BACKUP", Make: T(proto.Command_COMMAND_TYPE_BACKUP, &command.BackupRequest{Format: command.BackupRequest_BACKUP_REQUEST_FORMAT_BINARY}),
			Required: [][]string{{"backup"}}, Action: "db.Backup",
			RespError: c18Decode(func() *proto.CommandBackupResponse { return &proto.CommandBackupResponse{} }, true)},
		{Name: "BACKUP_STREAM", Make: T(proto.Command_COMMAND_TYPE_BACKUP_STREAM, &command.BackupRequest{Format: command.BackupRequest_BACKUP_REQUEST_FORMAT_BINARY}),
			Required: [][]string{{"backup"}}, Action: "db.Backup",
			RespError: c18Decode(func() *proto.CommandBackupResponse { return &proto.CommandBackupResponse{} }, false)},
		{Name: "BACKUP_STREAM_SQL", Make: T(proto.Command_COMMAND_TYPE_BACKUP_STREAM, &command.BackupRequest{Format: command.BackupRequest_BACKUP_REQUEST_FORMAT_SQL, Compress: true}),
			Required: [][]string{{"backup"}}, Action: "db.Backup",
			RespError: c18Decode(func() *proto.CommandBackupResponse { return &proto.CommandBackupResponse{} }, false)},
		{Name: "LOAD", Make: T(proto.Command_COMMAND_TYPE_LOAD, &command.LoadRequest{Data: []byte("SQLite format 3\x00xxxx")}),
			Required: [][]string{{"load"}}, Action: "db.Load",
			RespError: c18Decode(func() *proto.CommandLoadResponse { return &proto.CommandLoadResponse{} }, false)},
		{Name: "REMOVE_NODE", Make: T(proto.Command_COMMAND_TYPE_REMOVE_NODE, &command.RemoveNodeRequest{Id: "n2"}),
			Required: [][]string{{"remove"}}, Action: "mgr.Remove",
			RespError: c18Decode(func() *proto.CommandRemoveNodeResponse { return &proto.CommandRemoveNodeResponse{} }, false)},
		{Name: "NOTIFY", Make: T(proto.Command_COMMAND_TYPE_NOTIFY, &command.NotifyRequest{Id: "n2", Address: "127.0.0.1:2"}),
			Required: [][]string{{"join"}}, Action: "mgr.Notify",
			RespError: c18Decode(func() *proto.CommandNotifyResponse { return &proto.CommandNotifyResponse{} }, false)},
		{Name: "JOIN_VOTER", Make: T(proto.Command_COMMAND_TYPE_JOIN, &command.JoinRequest{Id: "n2", Address: "127.0.0.1:2", Voter: true}),
			Required: [][]string{{"join"}}, Action: "mgr.Join",
			RespError: c18Decode(func() *proto.CommandJoinResponse { return &proto.CommandJoinResponse{} }, false)},
		{Name: "JOIN_NONVOTER", Make: T(proto.Command_COMMAND_TYPE_JOIN, &command.JoinRequest{Id: "n2", Address: "127.0.0.1:2", Voter: false}),
			Required: [][]string{{"join-read-only"}, {"join-read-replica"}}, Ambiguous: [][]string{{"join"}}, Action: "mgr.Join",
			RespError: c18Decode(func() *proto.CommandJoinResponse { return &proto.CommandJoinResponse{} }, false)},
		{Name: "STEPDOWN", Make: T(proto.Command_COMMAND_TYPE_STEPDOWN, &command.StepdownRequest{Id: "n2", Wait: false}),
			Required: [][]string{{"leader-ops"}}, Action: "mgr.Stepdown",
			RespError: c18Decode(func() *proto.CommandStepdownResponse { return &proto.CommandStepdownResponse{} }, false)},
	}
}

// c18Vary returns a copy of the command whose request FIELDS are generated
// (everything that does not change which permission the command needs): the
// decision must not depend on them.
func c18Vary(rt *rapid.T, base *proto.Command) *proto.Command {
	c := pb.Clone(base).(*proto.Command)
	genReq := func(r *command.Request, sql string) *command.Request {
		if r == nil {
			r = &command.Request{}
		}
		r.Transaction = rapid.Bool().Draw(rt, "f-transaction")
		r.RollbackOnError = rapid.Bool().Draw(rt, "f-rollback")
		r.DbTimeout = rapid.SampledFrom([]int64{0, 1000000, 5000000000}).Draw(rt, "f-dbtimeout")
		n := rapid.IntRange(1, 3).Draw(rt, "f-statements")
		r.Statements = nil
		for i := 0; i < n; i++ {
			r.Statements = append(r.Statements, &command.Statement{Sql: sql})
		}
		return r
	}
	lvl := func() command.ConsistencyLevel {
		return command.ConsistencyLevel(rapid.IntRange(0, 4).Draw(rt, "f-level"))
	}
	switch {
	case c.GetExecuteRequest() != nil:
		er := c.GetExecuteRequest()
		er.Request = genReq(er.Request, "INSERT INTO t VALUES(1)")
		er.Timings = rapid.Bool().Draw(rt, "f-timings")
	case c.GetQueryRequest() != nil:
		qr := c.GetQueryRequest()
		qr.Request = genReq(qr.Request, "SELECT * FROM t")
		qr.Timings = rapid.Bool().Draw(rt, "f-timings")
		qr.Level = lvl()
		qr.Freshness = rapid.SampledFrom([]int64{0, 1, 1000000000}).Draw(rt, "f-freshness")
		qr.FreshnessStrict = rapid.Bool().Draw(rt, "f-strict")
		qr.LinearizableTimeout = rapid.SampledFrom([]int64{0, 1000000000}).Draw(rt, "f-lin-timeout")
	case c.GetExecuteQueryRequest() != nil:
		rr := c.GetExecuteQueryRequest()
		rr.Request = genReq(rr.Request, "SELECT * FROM t")
		rr.Timings = rapid.Bool().Draw(rt, "f-timings")
		rr.Level = lvl()
		rr.Freshness = rapid.SampledFrom([]int64{0, 1, 1000000000}).Draw(rt, "f-freshness")
		rr.FreshnessStrict = rapid.Bool().Draw(rt, "f-strict")
	case c.GetBackupRequest() != nil:
		br := c.GetBackupRequest()
		br.Format = command.BackupRequest_Format(rapid.IntRange(0, 3).Draw(rt, "f-format"))
		br.Vacuum = rapid.Bool().Draw(rt, "f-vacuum")
		br.Compress = rapid.Bool().Draw(rt, "f-compress")
		br.Leader = rapid.Bool().Draw(rt, "f-leader")
		br.Tables = rapid.SliceOfN(rapid.SampledFrom([]string{"t", "u", ""}), 0, 2).Draw(rt, "f-tables")
	case c.GetLoadRequest() != nil:
		n := rapid.SampledFrom([]int{0, 20, 4096, 100000}).Draw(rt, "f-load-size")
		c.GetLoadRequest().Data = append([]byte("SQLite format 3\x00"), bytes.Repeat([]byte{'x'}, n)...)
	case c.GetRemoveNodeRequest() != nil:
		c.GetRemoveNodeRequest().Id = rapid.SampledFrom([]string{"n2", "n1", "", "nosuch"}).Draw(rt, "f-id")
	case c.GetNotifyRequest() != nil:
		c.GetNotifyRequest().Id = rapid.SampledFrom([]string{"n2", ""}).Draw(rt, "f-id")
		c.GetNotifyRequest().Address = rapid.SampledFrom([]string{"127.0.0.1:2", ""}).Draw(rt, "f-addr")
	case c.GetJoinRequest() != nil: // the voter flag selects the permission and stays as it is
		c.GetJoinRequest().Id = rapid.SampledFrom([]string{"n2", "n9", ""}).Draw(rt, "f-id")
		c.GetJoinRequest().Address = rapid.SampledFrom([]string{"127.0.0.1:2", "10.0.0.9:4002"}).Draw(rt, "f-addr")
	case c.GetStepdownRequest() != nil:
		c.GetStepdownRequest().Wait = rapid.Bool().Draw(rt, "f-wait")
		c.GetStepdownRequest().Id = rapid.SampledFrom([]string{"n2", ""}).Draw(rt, "f-id")
	}
	return c
}

func c18Sat(m c18Model, creds *proto.Credentials, alts [][]string) bool {
	u, pw := creds.GetUsername(), creds.GetPassword()
	for _, conj := range alts {
		ok := true
		for _, p := range conj {
			if !m.aa(u, pw, p) {
				ok = false
				break
			}
		}
		if ok {
			return true
		}
	}
	return false
}

// ------------------------------------------------------------ raw client ----

// c18Exchange sends one framed command on a fresh connection through the mux,
// half-closes, and returns every byte the server sent until it closed.
func c18Exchange(addr string, cmd *proto.Command) ([]byte, error) {
	conn, err := c18Dial(addr)
	if err != nil {
		return nil, err
	}
	defer conn.Close()
	p, err := pb.Marshal(cmd)
	if err != nil {
		return nil, err
	}
	buf := make([]byte, 0, 9+len(p))
	buf = append(buf, MuxClusterHeader)
	buf = binary.LittleEndian.AppendUint64(buf, uint64(len(p)))
	buf = append(buf, p...)
	if _, err := conn.Write(buf); err != nil {
		return nil, err
	}
	if err := conn.(*net.TCPConn).CloseWrite(); err != nil {
		return nil, err
	}
	conn.SetReadDeadline(time.Now().Add(30 * time.Second))
	all, err := io.ReadAll(conn)
	return all, err
}

// c18ContainsSentinel looks for the sentinel in raw bytes and in every
// gzip-decodable suffix starting at a gzip magic number.
func c18ContainsSentinel(b []byte) bool {
	if bytes.Contains(b, []byte(c18Sentinel)) {
		return true
	}
	for i := 0; i+2 < len(b); i++ {
		if b[i] == 0x1f && b[i+1] == 0x8b {
			if zr, err := gzip.NewReader(bytes.NewReader(b[i:])); err == nil {
				out, _ := io.ReadAll(io.LimitReader(zr, 1<<20))
				if bytes.Contains(out, []byte(c18Sentinel)) {
					return true
				}
			}
		}
	}
	return false
}

// ------------------------------------------------------------------ test ----

type c18Node struct {
	ln  net.Listener
	mux *tcp.Mux
	svc *Service
	rec *c18Recorder
}

func c18Start(credFile string) (*c18Node, error) {
	cs := auth.NewCredentialsStore()
	if err := cs.Load(strings.NewReader(credFile)); err != nil {
		return nil, fmt.Errorf("credentials load: %w", err)
	}
	ln, err := c18Listen()
	if err != nil {
		return nil, err
	}
	mux, err := tcp.NewMux(ln, nil)
	if err != nil {
		ln.Close()
		return nil, err
	}
	mux.Logger.SetOutput(io.Discard)
	rec := &c18Recorder{}
	svc := New(mux.Listen(MuxClusterHeader), &c18DB{rec}, &c18Mgr{rec}, cs)
	svc.logger.SetOutput(io.Discard)
	go mux.Serve()
	if err := svc.Open(); err != nil {
		ln.Close()
		return nil, err
	}
	return &c18Node{ln, mux, svc, rec}, nil
}

func (n *c18Node) stop() {
	n.ln.Close() // mux.Serve returns and closes the sub-listener channels
	n.mux.Close()
}

func TestVerif_C18_InterNode(t *testing.T) {
	rec := vstat.New(t, "C18", "internode",
		"rapid draws the TEXT of a credentials file: 0-5 entries over usernames {u1,u2,*} (repeats = redefinitions), each entry with the password key present (p1/p2/'') or absent and the perms key present (all / [] / 1-4 of the 13 documented perms) or absent; the real auth.CredentialsStore loads the text, the oracle evaluates the documented file meaning (absent password = '', absent perms = none, last entry wins); per file EVERY inter-node command type carrying a permission (12 variants incl. JOIN voter/non-voter and two BACKUP_STREAM entries), each with generated request fields (backup format/vacuum/compress/leader/tables; transaction, timings, level, freshness, statement count; load size; ids, addresses; stepdown wait/target) x 8 credential presentations {none, empty, u1 right/wrong pw, u2 right/wrong pw, unknown user, '*'} is sent on its own raw TCP connection through tcp.Mux and all bytes until close are read; one evaluation = one (file, command, presentation); non-trivial = the file defines at least one user and the decision depends on the presentation (some other presentation of the same command gets the opposite decision); distinct by (file, command, presentation)")
	cmds := c18Commands()
	rapid.Check(t, func(rt *rapid.T) {
		users := c18GenUsers(rt)
		file := c18CredFile(users)
		{
			seen, omitted, redefined := map[string]bool{}, false, false
			for _, u := range users {
				if !u.HasPw || !u.HasPerms {
					omitted = true
				}
				if seen[u.Name] {
					redefined = true
				}
				seen[u.Name] = true
			}
			if omitted {
				rec.Label("file:entry-omits-a-key")
			}
			if redefined {
				rec.Label("file:username-redefined")
			}
		}
		m := c18Build(users)
		node, err := c18Start(file)
		if err != nil {
			rec.Label("inconclusive:infrastructure")
			return
		}
		defer node.stop()
		press := c18Presentations(m)
		for _, cmd := range cmds {
			// which decisions occur for this command over all presentations
			nAuth := 0
			for _, p := range press {
				if c18Sat(m, p.Creds, cmd.Required) {
					nAuth++
				}
			}
			depends := nAuth > 0 && nAuth < len(press)
			for _, p := range press {
				authorized := c18Sat(m, p.Creds, cmd.Required)
				ambiguous := !authorized && c18Sat(m, p.Creds, cmd.Ambiguous)
				canon := file + "|" + cmd.Name + "|" + p.Name
				rec.Case(len(users) > 0 && depends, canon)
				switch {
				case authorized:
					rec.Label("authorized")
					rec.Label("authorized:" + cmd.Name)
				case ambiguous:
					rec.Label("ambiguous")
				default:
					rec.Label("unauthorized")
					rec.Label("unauthorized:" + cmd.Name)
				}
				rec.Label("presentation:" + p.Name)
				node.rec.take()
				c := c18Vary(rt, cmd.Make())
				c.Credentials = p.Creds
				all, xerr := c18Exchange(node.ln.Addr().String(), c)
				if xerr != nil && len(all) == 0 {
					// could not talk to the service at all: infrastructure
					rec.Label("exchange-error")
					continue
				}
				calls := node.rec.take()
				actions := c18Actions(calls)
				fields := fmt.Sprintf("%v", c.GetRequest())
				if len(fields) > 300 {
					fields = fields[:300] + "..."
				}
				desc := fmt.Sprintf("cmd=%s fields={%s} presentation=%s creds=%v file=%s calls=%v received=%d bytes", cmd.Name, fields, p.Name, p.Creds, file, calls, len(all))
				rec.Sample(desc)
				if ambiguous {
					continue
				}
				// parse the first frame
				var frame, rest []byte
				frameOK := false
				if len(all) >= 8 {
					sz := binary.LittleEndian.Uint64(all[:8])
					if sz <= uint64(len(all)-8) {
						frame, rest, frameOK = all[8:8+sz], all[8+sz:], true
					}
				}
				if !authorized {
					sigBase := "C18/internode-unauthorized{cmd=" + cmd.Name + "}"
					if strings.HasPrefix(cmd.Name, "BACKUP_STREAM") {
						sigBase = "C18/backup-stream-unauthorized-still-streams"
					}
					var problems []string
					if len(actions) > 0 {
						problems = append(problems, fmt.Sprintf("action method(s) %v invoked", actions))
					}
					if c18ContainsSentinel(all) {
						problems = append(problems, "database content (sentinel) present in the bytes received")
					}
					if !frameOK {
						problems = append(problems, "no well-formed response frame")
					} else {
						e, derr := cmd.RespError(frame)
						if derr != nil {
							problems = append(problems, "response frame does not decode: "+derr.Error())
						} else if e != "unauthorized" {
							problems = append(problems, fmt.Sprintf("response error is %q, want \"unauthorized\"", e))
						}
						if len(rest) > 0 {
							problems = append(problems, fmt.Sprintf("%d further bytes follow the error response", len(rest)))
						}
					}
					if len(problems) > 0 {
						sort.Strings(problems)
						what := "unauthorized inter-node command performs its action / discloses data: " + strings.Join(problems, "; ")
						if rec.KnownHit(sigBase, what) {
							continue
						}
						rt.Fatalf("%s", rec.Violation(sigBase, "%s :: %s", what, desc))
					}
					continue
				}
				// authorized: documented model says the command is served
				e, derr := "", error(nil)
				if frameOK {
					e, derr = cmd.RespError(frame)
				}
				n := 0
				for _, a := range actions {
					if a == cmd.Action {
						n++
					}
				}
				if !frameOK || derr != nil || e == "unauthorized" || n != 1 {
					sig := "C18/internode-authorized-refused{cmd=" + cmd.Name + "}"
					what := fmt.Sprintf("authorized inter-node command not served exactly once (frameOK=%v decodeErr=%v error=%q %s calls=%d)", frameOK, derr, e, cmd.Action, n)
					if rec.KnownHit(sig, what) {
						continue
					}
					rt.Fatalf("%s", rec.Violation(sig, "%s :: %s", what, desc))
				}
			}
		}
	})
}

// c18ExchangeMany sends several framed commands back to back on ONE
// connection, half-closes, and returns everything the server sent.
func c18ExchangeMany(addr string, cmds []*proto.Command) ([]byte, error) {
	conn, err := c18Dial(addr)
	if err != nil {
		return nil, err
	}
	defer conn.Close()
	buf := []byte{MuxClusterHeader}
	for _, c := range cmds {
		p, err := pb.Marshal(c)
		if err != nil {
			return nil, err
		}
		buf = binary.LittleEndian.AppendUint64(buf, uint64(len(p)))
		buf = append(buf, p...)
	}
	if _, err := conn.Write(buf); err != nil {
		return nil, err
	}
	if err := conn.(*net.TCPConn).CloseWrite(); err != nil {
		return nil, err
	}
	conn.SetReadDeadline(time.Now().Add(30 * time.Second))
	return io.ReadAll(conn)
}

// TestVerif_C18_InterNodeSeq: permission decisions are per command, not per
// connection. 2-4 commands with independently drawn credential presentations
// share one connection (as they do on the client's pooled connections); an
// authorized command earlier on the connection must not open the door for a
// later unauthorized one, and vice versa.
func TestVerif_C18_InterNodeSeq(t *testing.T) {
	rec := vstat.New(t, "C18", "internode-seq",
		"rapid: credentials file as in unit internode; 2-4 commands (all types with a permission except the streaming BACKUP_STREAM and the undetermined non-voter JOIN) each with its own presentation, written back to back on one raw connection; expected: the i-th response frame says \"unauthorized\" exactly for the unauthorized commands, and the sequence of action methods invoked equals the actions of the authorized commands in order; non-trivial = the sequence mixes authorized and unauthorized commands; distinct by (file, sequence)")
	var cmds []c18Cmd
	for _, c := range c18Commands() {
		if !strings.HasPrefix(c.Name, "BACKUP_STREAM") && c.Name != "JOIN_NONVOTER" {
			cmds = append(cmds, c)
		}
	}
	rapid.Check(t, func(rt *rapid.T) {
		users := c18GenUsers(rt)
		file := c18CredFile(users)
		{
			seen, omitted, redefined := map[string]bool{}, false, false
			for _, u := range users {
				if !u.HasPw || !u.HasPerms {
					omitted = true
				}
				if seen[u.Name] {
					redefined = true
				}
				seen[u.Name] = true
			}
			if omitted {
				rec.Label("file:entry-omits-a-key")
			}
			if redefined {
				rec.Label("file:username-redefined")
			}
		}
		m := c18Build(users)
		press := c18Presentations(m)
		n := rapid.IntRange(2, 4).Draw(rt, "n")
		type item struct {
			cmd  c18Cmd
			pres c18Pres
			auth bool
		}
		var seq []item
		var wire []*proto.Command
		var names []string
		nAuth := 0
		for i := 0; i < n; i++ {
			it := item{cmd: cmds[rapid.IntRange(0, len(cmds)-1).Draw(rt, "cmd")], pres: press[rapid.IntRange(0, len(press)-1).Draw(rt, "pres")]}
			it.auth = c18Sat(m, it.pres.Creds, it.cmd.Required)
			if it.auth {
				nAuth++
			}
			c := c18Vary(rt, it.cmd.Make())
			c.Credentials = it.pres.Creds
			wire = append(wire, c)
			seq = append(seq, it)
			names = append(names, fmt.Sprintf("%s/%s/auth=%v", it.cmd.Name, it.pres.Name, it.auth))
		}
		canon := file + "|" + strings.Join(names, ",")
		rec.Case(nAuth > 0 && nAuth < n, canon)
		rec.Sample(canon)
		node, err := c18Start(file)
		if err != nil {
			rec.Label("inconclusive:infrastructure")
			return
		}
		defer node.stop()
		all, xerr := c18ExchangeMany(node.ln.Addr().String(), wire)
		if xerr != nil && len(all) == 0 {
			rec.Label("exchange-error")
			return
		}
		calls := c18Actions(node.rec.take())
		var want []string
		for _, it := range seq {
			if it.auth {
				want = append(want, it.cmd.Action)
			}
		}
		fail := func(what string) {
			sig := "C18/internode-decision-not-per-command"
			if rec.KnownHit(sig, what) {
				return
			}
			rt.Fatalf("%s", rec.Violation(sig, "%s :: sequence=%v calls=%v want=%v file=%s received=%d bytes", what, names, calls, want, file, len(all)))
		}
		if strings.Join(calls, ",") != strings.Join(want, ",") {
			fail("actions performed on the connection differ from the actions of the authorized commands")
			return
		}
		rest := all
		for i, it := range seq {
			if len(rest) < 8 {
				fail(fmt.Sprintf("response frame %d missing", i))
				return
			}
			sz := binary.LittleEndian.Uint64(rest[:8])
			if sz > uint64(len(rest)-8) {
				fail(fmt.Sprintf("response frame %d truncated", i))
				return
			}
			e, derr := it.cmd.RespError(rest[8 : 8+sz])
			rest = rest[8+sz:]
			if derr != nil {
				fail(fmt.Sprintf("response frame %d does not decode: %v", i, derr))
				return
			}
			if (e == "unauthorized") != !it.auth {
				fail(fmt.Sprintf("response %d has error %q but the command is authorized=%v", i, e, it.auth))
				return
			}
			if !it.auth && c18ContainsSentinel(all[len(all)-len(rest)-int(sz)-8:len(all)-len(rest)]) {
				fail(fmt.Sprintf("response %d to an unauthorized command contains the sentinel", i))
				return
			}
		}
		if len(rest) != 0 {
			fail(fmt.Sprintf("%d unexpected bytes after the last response", len(rest)))
		}
	})
}

// ---- infrastructure helpers (not part of any oracle) ----

// c18Dial connects to addr from a random loopback source address 127.x.y.z.
// Sockets of a client that closes (or half-closes) first stay in TIME_WAIT for
// 60 s; with 127.0.0.1 as the only source address, thousands of short
// connections per second from many check processes would leave no free port
// for bind(127.0.0.1:0), i.e. for every new listener on the machine. Spreading
// the client side over 127/8 keeps those sockets away from 127.0.0.1. A few
// retries with back-off absorb transient failures.
func c18Dial(addr string) (net.Conn, error) {
	var last error
	for try := 0; try < 5; try++ {
		d := net.Dialer{Timeout: 10 * time.Second, LocalAddr: &net.TCPAddr{IP: net.IPv4(127, byte(1+rand.Intn(250)), byte(rand.Intn(256)), byte(1+rand.Intn(250)))}}
		c, err := d.Dial("tcp", addr)
		if err == nil {
			return c, nil
		}
		last = err
		time.Sleep(time.Duration(25*(try+1)) * time.Millisecond)
	}
	return nil, last
}

// c18Listen listens on 127.0.0.1:0, retrying a few times.
func c18Listen() (net.Listener, error) {
	var last error
	for try := 0; try < 5; try++ {
		ln, err := net.Listen("tcp", "127.0.0.1:0")
		if err == nil {
			return ln, nil
		}
		last = err
		time.Sleep(time.Duration(50*(try+1)) * time.Millisecond)
	}
	return nil, last
}

// c18Retry runs f up to five times with a short back-off.
func c18Retry(f func() error) error {
	var last error
	for try := 0; try < 5; try++ {
		if last = f(); last == nil {
			return nil
		}
		time.Sleep(time.Duration(50*(try+1)) * time.Millisecond)
	}
	return last
}
