// Package vsnap builds snapshot-store "shapes" for checks: sequences of full,
// incremental (1..M WALs) and installed (full + WALs) snapshots over an evolving
// scratch SQLite database, created through rqlite's public APIs the way
// store.Store.fsmSnapshot does, but without raft. The logical content of the
// scratch database (vsql.DumpDB through the raw driver, independent of rqlite's
// snapshot code) is remembered for every snapshot.
//
// Import path: github.com/rqlite/rqlite/v10/internal/verif/vsnap
// (a white-box test in package snapshot cannot import it -- import cycle --
// use package snapshot_test plus a small export shim, see
// harness/pkg/snapshot/zz_verif_common_g4export_test.go).
//
// API (everything else in this file is private):
//
//	b, err := vsnap.New(root)            scratch DB (WAL mode, autocheckpoint off) at root/src/db.sqlite,
//	                                     staging dir root/src/wal-staging, snapshot.Store at root/snapshots
//	                                     (auto-reap disabled through a huge reap threshold)
//	vsnap.NewWithDB(root, file)          same, the scratch DB starts as a copy of an existing SQLite file
//	b.Exec(stmts...)                     run write statements on the scratch DB (rqlite db layer)
//	b.Dump()                             canonical logical dump of the scratch DB (raw driver)
//	b.Full(index, term)                  full snapshot: Checkpoint(nil) + NewSnapshotStreamer -> Store.Create sink -> Close
//	b.StageWAL()                         compacted WAL of everything since the last checkpoint -> staging dir (+ .crc32)
//	b.Incremental(index, term)           NewSnapshotPathStreamer(staging dir) -> sink -> Close (needs >=1 staged WAL)
//	b.Installed(index, term, rounds)     what a follower gets from InstallSnapshot: data.db + len(rounds) WAL files in
//	                                     one snapshot directory; each round is a batch of statements
//	b.FullStream() / b.IncrementalStream() / b.InstalledStream(rounds)
//	                                     the streams alone, for callers that drive the sink themselves
//	b.CreateSink(index, term)            Store.Create with a one-voter configuration
//	b.Record(kind, id, index, term)      remember a snapshot the caller installed itself (content = current dump)
//	b.NoteReap(newID)                    after a successful Store.Reap: the catalog collapses to one full snapshot
//	b.Reopen()                           Close + NewStore on the same directory
//	b.Close()                            close store and scratch DB
//	b.Snaps                              []Snap oldest first: ID, Kind, Index, Term, NWALs, Dump
//	vsnap.Persist(sink, r, size)         raft's calling protocol (copy error or short copy => Cancel, else Close)
//	vsnap.RestoreDump(store, id)         Store.Open(id) + snapshot.Restore into a scratch file + raw dump
//	vsnap.GenShape(rt, opt) / b.Apply(shape)  rapid generator of shapes (pure data, renderable) and its interpreter
//	vsnap.GenBatch(rt, seq, opt)         one batch of write statements that is guaranteed to change the database
//	vsnap.Quiet()                        send rqlite's std-logger output to io.Discard
//
// Indexes must be strictly increasing within a term (snapshot ids are
// term-index-millis; the builder does not enforce it).
package vsnap

import (
	"errors"
	"fmt"
	"io"
	"log"
	"os"
	"path/filepath"
	"sort"
	"strings"
	"time"

	"github.com/hashicorp/raft"
	command "github.com/rqlite/rqlite/v10/command/proto"
	"github.com/rqlite/rqlite/v10/db"
	"github.com/rqlite/rqlite/v10/internal/verif/vsql"
	"github.com/rqlite/rqlite/v10/snapshot"
	"pgregory.net/rapid"
)

// Kind of a snapshot directory.
type Kind string

const (
	Full        Kind = "full"      // data.db only
	Incremental Kind = "inc"       // WAL files only
	Installed   Kind = "installed" // data.db + WAL files (received from another node)
)

// Snap is what the builder remembers about one snapshot.
type Snap struct {
	ID    string
	Kind  Kind
	Index uint64
	Term  uint64
	NWALs int    // WAL files inside this snapshot's own directory
	Dump  string // logical content of the database at this snapshot
}

// Builder owns a scratch database and a snapshot store.
type Builder struct {
	Root     string
	StoreDir string
	DBPath   string
	Store    *snapshot.Store
	Snaps    []Snap

	db      *db.SwappableDB
	staging string
	staged  int // WAL files currently in the staging dir
	seq     int
}

const ckptTimeout = 10 * time.Second

// Quiet silences the std logger (rqlite's db, sink and staging loggers write to it).
func Quiet() { log.SetOutput(io.Discard) }

// New creates the scratch database and an empty store under root.
func New(root string) (*Builder, error) { return NewWithDB(root, "") }

// NewWithDB is New with the scratch database starting as a copy of the SQLite
// file at dbFile (any page size; what a node has after booting from a file).
func NewWithDB(root, dbFile string) (*Builder, error) {
	b := &Builder{Root: root, StoreDir: filepath.Join(root, "snapshots")}
	src := filepath.Join(root, "src")
	if err := os.MkdirAll(src, 0o755); err != nil {
		return nil, err
	}
	b.DBPath = filepath.Join(src, "db.sqlite")
	b.staging = filepath.Join(src, "wal-staging")
	if dbFile != "" {
		if err := vsql.CopyFile(dbFile, b.DBPath); err != nil {
			return nil, err
		}
	}
	d, err := db.OpenSwappable(b.DBPath, nil, false, true, 0)
	if err != nil {
		return nil, fmt.Errorf("open scratch db: %w", err)
	}
	b.db = d
	st, err := snapshot.NewStore(b.StoreDir)
	if err != nil {
		d.Close()
		return nil, err
	}
	st.SetReapThreshold(noAutoReap)
	b.Store = st
	return b, nil
}

// noAutoReap is the reap threshold the builder sets on its store so that the
// background reaper never changes the catalog behind the caller's back (call
// b.Store.SetReapThreshold yourself to test auto-reaping).
const noAutoReap = 1 << 30

// Close closes the store and the scratch database.
func (b *Builder) Close() {
	if b.Store != nil {
		b.Store.Close()
		b.Store = nil
	}
	if b.db != nil {
		b.db.Close()
		b.db = nil
	}
}

// Reopen closes the store and opens a new one on the same directory.
func (b *Builder) Reopen() error {
	if b.Store != nil {
		b.Store.Close()
		b.Store = nil
	}
	st, err := snapshot.NewStore(b.StoreDir)
	if err != nil {
		return err
	}
	st.SetReapThreshold(noAutoReap)
	b.Store = st
	return nil
}

// Exec runs write statements on the scratch database, one request each.
func (b *Builder) Exec(stmts ...string) error {
	for _, s := range stmts {
		req := &command.Request{Statements: []*command.Statement{{Sql: s}}}
		res, err := b.db.Execute(req, false)
		if err != nil {
			return fmt.Errorf("exec %q: %w", s, err)
		}
		for _, r := range res {
			if e := r.GetError(); e != "" {
				return fmt.Errorf("exec %q: %s", s, e)
			}
			if er := r.GetE(); er != nil && er.Error != "" {
				return fmt.Errorf("exec %q: %s", s, er.Error)
			}
		}
	}
	return nil
}

// Dump returns the canonical logical dump of the scratch database.
func (b *Builder) Dump() (string, error) { return vsql.DumpFile(b.DBPath) }

// StagingDir is the WAL staging directory used for incremental snapshots.
func (b *Builder) StagingDir() string { return b.staging }

// Staged is the number of WAL files waiting in the staging directory.
func (b *Builder) Staged() int { return b.staged }

// FullStream checkpoints the scratch database completely and returns the
// stream a full snapshot persists (header + database file). Any staged WALs
// are dropped: the full snapshot supersedes them.
func (b *Builder) FullStream() (io.ReadCloser, error) {
	meta, _, err := b.db.Checkpoint(nil, ckptTimeout)
	if err != nil {
		return nil, fmt.Errorf("checkpoint for full snapshot: %w", err)
	}
	if !meta.Success() {
		return nil, errors.New("checkpoint for full snapshot did not succeed")
	}
	os.RemoveAll(b.staging)
	b.staged = 0
	str, err := snapshot.NewSnapshotStreamer(b.DBPath)
	if err != nil {
		return nil, err
	}
	if err := str.Open(); err != nil {
		return nil, err
	}
	return str, nil
}

// StageWAL writes the compacted WAL of all changes since the last checkpoint
// into the staging directory (with its .crc32 sidecar) and truncates the live
// WAL. It fails if there is nothing to snapshot.
func (b *Builder) StageWAL() error {
	if err := b.stageInto(b.staging); err != nil {
		return err
	}
	b.staged++
	return nil
}

func (b *Builder) stageInto(dir string) error {
	fi, err := os.Stat(b.DBPath + "-wal")
	if err != nil || fi.Size() == 0 {
		return errors.New("no WAL data to snapshot")
	}
	if err := os.MkdirAll(dir, 0o755); err != nil {
		return err
	}
	sd := snapshot.NewStagingDir(dir)
	w, _, err := sd.CreateWAL()
	if err != nil {
		return err
	}
	defer w.Cancel()
	if _, _, err := b.db.Checkpoint(w, ckptTimeout); err != nil {
		return fmt.Errorf("checkpoint into staging: %w", err)
	}
	return w.Close()
}

// IncrementalStream returns the stream an incremental snapshot persists (a
// header naming the staging directory; no data follows).
func (b *Builder) IncrementalStream() (io.ReadCloser, error) {
	if b.staged == 0 {
		return nil, errors.New("no staged WAL")
	}
	return snapshot.NewSnapshotPathStreamer(b.staging)
}

// Record remembers a snapshot installed by the caller; its content is the
// current state of the scratch database.
func (b *Builder) Record(kind Kind, id string, index, term uint64, nwals int) (Snap, error) {
	d, err := b.Dump()
	if err != nil {
		return Snap{}, err
	}
	s := Snap{ID: id, Kind: kind, Index: index, Term: term, NWALs: nwals, Dump: d}
	b.Snaps = append(b.Snaps, s)
	if kind == Incremental {
		b.staged = 0
	}
	return s, nil
}

// NoteReap updates the remembered catalog after a successful Store.Reap that
// consolidated something: one full snapshot with the newest index, term and
// content, under the id the store now lists.
func (b *Builder) NoteReap(newID string) {
	if len(b.Snaps) == 0 {
		return
	}
	n := b.Snaps[len(b.Snaps)-1]
	n.ID, n.Kind, n.NWALs = newID, Full, 0
	b.Snaps = []Snap{n}
}

// CreateSink calls Store.Create with a one-voter configuration.
func (b *Builder) CreateSink(index, term uint64) (raft.SnapshotSink, error) {
	cfg := raft.Configuration{Servers: []raft.Server{{Suffrage: raft.Voter, ID: "1", Address: "localhost:1"}}}
	return b.Store.Create(raft.SnapshotVersionMax, index, term, cfg, 1, nil)
}

// Full takes a full snapshot of the scratch database.
func (b *Builder) Full(index, term uint64) (Snap, error) {
	str, err := b.FullStream()
	if err != nil {
		return Snap{}, err
	}
	defer str.Close()
	sink, err := b.CreateSink(index, term)
	if err != nil {
		return Snap{}, err
	}
	if err := Persist(sink, str, -1); err != nil {
		return Snap{}, err
	}
	return b.Record(Full, sink.ID(), index, term, 0)
}

// Incremental persists the staged WAL files as an incremental snapshot.
func (b *Builder) Incremental(index, term uint64) (Snap, error) {
	str, err := b.IncrementalStream()
	if err != nil {
		return Snap{}, err
	}
	defer str.Close()
	n := b.staged
	sink, err := b.CreateSink(index, term)
	if err != nil {
		return Snap{}, err
	}
	if err := Persist(sink, str, -1); err != nil {
		return Snap{}, err
	}
	return b.Record(Incremental, sink.ID(), index, term, n)
}

// InstalledStream executes the rounds and returns the stream a leader would
// send for the resulting state: header + a copy of the database as it was
// before the rounds + one compacted WAL file per round. Afterwards the scratch
// database holds the new state and its WAL is empty. The second result is the
// number of WAL files in the stream.
func (b *Builder) InstalledStream(rounds [][]string) (io.ReadCloser, int, error) {
	meta, _, err := b.db.Checkpoint(nil, ckptTimeout)
	if err != nil || !meta.Success() {
		return nil, 0, fmt.Errorf("checkpoint before install: %v", err)
	}
	os.RemoveAll(b.staging)
	b.staged = 0
	b.seq++
	donor := filepath.Join(b.Root, fmt.Sprintf("donor-%d", b.seq))
	if err := os.MkdirAll(donor, 0o755); err != nil {
		return nil, 0, err
	}
	// The streamer keeps its files open, so the directory can go right away.
	defer os.RemoveAll(donor)
	dbCopy := filepath.Join(donor, "base.db")
	if err := vsql.CopyFile(b.DBPath, dbCopy); err != nil {
		return nil, 0, err
	}
	walDir := filepath.Join(donor, "wals")
	for _, stmts := range rounds {
		if err := b.Exec(stmts...); err != nil {
			return nil, 0, err
		}
		if err := b.stageInto(walDir); err != nil {
			return nil, 0, err
		}
	}
	var wals []string
	if len(rounds) > 0 {
		wals, err = snapshot.NewStagingDir(walDir).WALFiles()
		if err != nil {
			return nil, 0, err
		}
		sort.Strings(wals)
	}
	str, err := snapshot.NewSnapshotStreamer(dbCopy, wals...)
	if err != nil {
		return nil, 0, err
	}
	if err := str.Open(); err != nil {
		return nil, 0, err
	}
	return str, len(wals), nil
}

// Installed creates a snapshot directory holding data.db plus len(rounds) WAL
// files, the form a follower stores when the leader's newest snapshot resolves
// to a database and a WAL chain. Each round's statements are executed and then
// checkpointed into one WAL file. Afterwards the scratch database equals the
// snapshot content and its WAL is empty, so incrementals can follow.
func (b *Builder) Installed(index, term uint64, rounds [][]string) (Snap, error) {
	str, nwals, err := b.InstalledStream(rounds)
	if err != nil {
		return Snap{}, err
	}
	defer str.Close()
	sink, err := b.CreateSink(index, term)
	if err != nil {
		return Snap{}, err
	}
	if err := Persist(sink, str, -1); err != nil {
		return Snap{}, err
	}
	return b.Record(Installed, sink.ID(), index, term, nwals)
}

// Persist drives a sink the way raft does: copy the stream; a write error or a
// short copy (size >= 0 and copied != size) cancels the sink, otherwise the
// sink is closed. The returned error is the copy or close error.
func Persist(sink raft.SnapshotSink, r io.Reader, size int64) error {
	n, err := io.Copy(sink, r)
	if err != nil {
		sink.Cancel()
		return fmt.Errorf("copy: %w", err)
	}
	if size >= 0 && n != size {
		sink.Cancel()
		return fmt.Errorf("short read %d/%d", n, size)
	}
	return sink.Close()
}

// RestoreDump opens snapshot id in st, restores it into a scratch file with
// snapshot.Restore and returns the raw-driver dump of the result.
func RestoreDump(st *snapshot.Store, id string) (string, error) {
	_, rc, err := st.Open(id)
	if err != nil {
		return "", fmt.Errorf("open %s: %w", id, err)
	}
	defer rc.Close()
	return RestoreStreamDump(rc)
}

// RestoreStreamDump restores a snapshot stream into a scratch file and dumps it.
func RestoreStreamDump(r io.Reader) (string, error) {
	dir, err := os.MkdirTemp("", "vsnap-restore")
	if err != nil {
		return "", err
	}
	defer os.RemoveAll(dir)
	dst := filepath.Join(dir, "restored.db")
	if _, err := snapshot.Restore(r, dst); err != nil {
		return "", fmt.Errorf("restore: %w", err)
	}
	return vsql.DumpFile(dst)
}

// ---------------------------------------------------------------------------
// Generators

// Opt tunes the generators.
type Opt struct {
	MaxSteps       int  // snapshots per shape (default 4)
	MaxWALs        int  // WAL files per incremental / installed snapshot (default 3)
	Incompressible bool // use pseudo-random blobs instead of repeated text
	BigRows        bool // allow rows that need overflow pages
}

func (o Opt) norm() Opt {
	if o.MaxSteps <= 0 {
		o.MaxSteps = 4
	}
	if o.MaxWALs <= 0 {
		o.MaxWALs = 3
	}
	return o
}

// Step is one snapshot of a shape. Batches holds the statements executed
// before the snapshot: for Full one batch; for Incremental and Installed one
// batch per WAL file (Installed may have none).
type Step struct {
	Kind    Kind
	Batches [][]string
	// Raft index and term of the snapshot (0: Apply picks 10, 20, ... in term 1).
	// GenShape starts just below a decimal digit boundary (7-9, 97-99, 997-999;
	// terms 1, 9, 99) and advances by 1..3, so that chains cross 9->10, 99->100
	// ...: snapshot ids are unpadded "<term>-<index>-<msec>" and anything that
	// orders them as strings gets such chains wrong.
	Index, Term uint64
}

// Shape is a pure-data description of a store history. The first step is
// always Full or Installed.
type Shape struct {
	Init  []string
	Steps []Step
}

// String renders the shape compactly (kinds and WAL counts).
func (s Shape) String() string {
	var parts []string
	for _, st := range s.Steps {
		switch st.Kind {
		case Full:
			parts = append(parts, "F")
		case Incremental:
			parts = append(parts, fmt.Sprintf("I%d", len(st.Batches)))
		case Installed:
			parts = append(parts, fmt.Sprintf("X%d", len(st.Batches)))
		}
	}
	out := strings.Join(parts, ",")
	if len(s.Steps) > 0 && s.Steps[0].Index != 0 {
		l := s.Steps[len(s.Steps)-1]
		out += fmt.Sprintf("@%d/%d..%d/%d", s.Steps[0].Term, s.Steps[0].Index, l.Term, l.Index)
	}
	return out
}

// Canon renders the shape completely (for distinct-case hashing).
func (s Shape) Canon() string {
	var sb strings.Builder
	sb.WriteString(strings.Join(s.Init, ";"))
	for _, st := range s.Steps {
		fmt.Fprintf(&sb, "|%s@%d/%d", st.Kind, st.Term, st.Index)
		for _, b := range st.Batches {
			sb.WriteString("[" + strings.Join(b, ";") + "]")
		}
	}
	return sb.String()
}

var schema = []string{
	`CREATE TABLE t1 (id INTEGER PRIMARY KEY, a TEXT, b BLOB, c)`,
	`CREATE TABLE t2 (k TEXT PRIMARY KEY, v) WITHOUT ROWID`,
	`CREATE INDEX t1a ON t1(a)`,
	`CREATE TABLE vlog (n INTEGER PRIMARY KEY, what TEXT)`,
}

// GenBatch generates 2..6 write statements; the last two always insert row seq
// into vlog and overwrite row 0 of vlog with seq, so the batch changes the
// database and later batches overwrite what earlier ones wrote (seq must be
// unique and positive).
func GenBatch(rt *rapid.T, seq int, o Opt) []string {
	n := rapid.IntRange(0, 4).Draw(rt, "nstmt")
	var out []string
	for i := 0; i < n; i++ {
		out = append(out, genStmt(rt, o))
	}
	out = append(out, fmt.Sprintf(`INSERT INTO vlog(n, what) VALUES(%d, 'batch')`, seq))
	// every batch overwrites the same row (and page): WAL files applied in the
	// wrong order, or one of them dropped, always change the content
	out = append(out, fmt.Sprintf(`INSERT OR REPLACE INTO vlog(n, what) VALUES(0, 'last batch = %d')`, seq))
	return out
}

func genText(rt *rapid.T, o Opt) string {
	max := 40
	if o.BigRows && rapid.IntRange(0, 5).Draw(rt, "big") == 0 {
		max = 6000
	}
	n := rapid.IntRange(0, max).Draw(rt, "len")
	if o.Incompressible {
		seed := rapid.Uint64().Draw(rt, "blobseed")
		b := make([]byte, n)
		x := seed | 1
		for i := range b {
			x ^= x << 13
			x ^= x >> 7
			x ^= x << 17
			b[i] = byte(x >> 32)
		}
		return fmt.Sprintf("x'%x'", b)
	}
	c := rapid.SampledFrom([]string{"a", "b", "z", "q"}).Draw(rt, "ch")
	return "'" + strings.Repeat(c, n) + "'"
}

func genStmt(rt *rapid.T, o Opt) string {
	id := rapid.IntRange(1, 40).Draw(rt, "id")
	switch rapid.IntRange(0, 7).Draw(rt, "kind") {
	case 0, 1, 2:
		return fmt.Sprintf(`INSERT OR REPLACE INTO t1(id, a, b, c) VALUES(%d, %s, %s, %d)`, id, genText(rt, o), genText(rt, o), rapid.IntRange(-5, 5).Draw(rt, "c"))
	case 3:
		return fmt.Sprintf(`INSERT OR REPLACE INTO t2(k, v) VALUES('k%d', %s)`, id, genText(rt, o))
	case 4:
		return fmt.Sprintf(`UPDATE t1 SET a = %s, c = c + 1 WHERE id %% 3 = %d`, genText(rt, o), id%3)
	case 5:
		return fmt.Sprintf(`DELETE FROM t1 WHERE id = %d`, id)
	case 6:
		return fmt.Sprintf(`DELETE FROM t2 WHERE k = 'k%d'`, id)
	default:
		return fmt.Sprintf(`CREATE TABLE IF NOT EXISTS x%d (p INTEGER PRIMARY KEY, q)`, id%4)
	}
}

// GenShape generates a shape: a first Full or Installed snapshot followed by
// up to MaxSteps-1 further snapshots of any kind.
func GenShape(rt *rapid.T, o Opt) Shape {
	o = o.norm()
	sh := Shape{Init: append([]string(nil), schema...)}
	seq := 0
	batch := func() []string { seq++; return GenBatch(rt, seq, o) }
	n := rapid.IntRange(1, o.MaxSteps).Draw(rt, "nsteps")
	index := uint64(rapid.SampledFrom([]int{7, 8, 9, 97, 98, 99, 997, 998, 999, 10, 3}).Draw(rt, "index0"))
	term := uint64(rapid.SampledFrom([]int{1, 1, 9, 9, 99}).Draw(rt, "term0"))
	for i := 0; i < n; i++ {
		if i > 0 {
			index += uint64(rapid.IntRange(1, 3).Draw(rt, "dindex"))
			if rapid.IntRange(0, 3).Draw(rt, "termbump") == 0 {
				term++
			}
		}
		var k Kind
		if i == 0 {
			k = rapid.SampledFrom([]Kind{Full, Full, Installed}).Draw(rt, "kind0")
		} else {
			k = rapid.SampledFrom([]Kind{Incremental, Incremental, Incremental, Full, Installed}).Draw(rt, "kind")
		}
		st := Step{Kind: k, Index: index, Term: term}
		switch k {
		case Full:
			st.Batches = [][]string{batch()}
		case Incremental:
			m := rapid.IntRange(1, o.MaxWALs).Draw(rt, "nwal")
			for j := 0; j < m; j++ {
				st.Batches = append(st.Batches, batch())
			}
		case Installed:
			m := rapid.IntRange(0, o.MaxWALs).Draw(rt, "nwal")
			if m == 0 {
				// still evolve the database before the base copy
				st.Batches = nil
			}
			for j := 0; j < m; j++ {
				st.Batches = append(st.Batches, batch())
			}
		}
		sh.Steps = append(sh.Steps, st)
	}
	return sh
}

// Apply builds the shape on b with the steps' indexes and terms (steps without
// them get 10, 20, ... in term 1), always continuing after the snapshots b
// already has.
func (b *Builder) Apply(sh Shape) error {
	if len(b.Snaps) == 0 && len(sh.Init) > 0 {
		if err := b.Exec(sh.Init...); err != nil {
			return err
		}
	}
	for _, st := range sh.Steps {
		index, term := st.Index, st.Term
		if index == 0 {
			index = uint64(10 * (len(b.Snaps) + 1))
		}
		if term == 0 {
			term = 1
		}
		if n := len(b.Snaps); n > 0 {
			if last := b.Snaps[n-1]; last.Index >= index {
				index = last.Index + 1
			}
			if last := b.Snaps[n-1]; last.Term > term {
				term = last.Term
			}
		}
		switch st.Kind {
		case Full:
			for _, batch := range st.Batches {
				if err := b.Exec(batch...); err != nil {
					return err
				}
			}
			if _, err := b.Full(index, term); err != nil {
				return fmt.Errorf("full: %w", err)
			}
		case Incremental:
			for _, batch := range st.Batches {
				if err := b.Exec(batch...); err != nil {
					return err
				}
				if err := b.StageWAL(); err != nil {
					return fmt.Errorf("stage: %w", err)
				}
			}
			if _, err := b.Incremental(index, term); err != nil {
				return fmt.Errorf("incremental: %w", err)
			}
		case Installed:
			if _, err := b.Installed(index, term, st.Batches); err != nil {
				return fmt.Errorf("installed: %w", err)
			}
		}
	}
	return nil
}
