// Package vcrash holds crash-state helpers shared by the crash-point checks
// (C07 reap, C08 upgrade, C03 acknowledged writes): recording vos events,
// saving / restoring directory trees ("copy-state" action), deriving torn-file
// and partial-checkpoint states, and running an operation in a child process
// that kills itself at an event ("kill" action).
//
// Harness code; imports the real package os.
package vcrash

import (
	"encoding/binary"
	"errors"
	"fmt"
	"io"
	"os"
	"os/exec"
	"path/filepath"
	"sort"
	"strings"
	"syscall"

	"github.com/rqlite/rqlite/v10/internal/verif/vos"
)

// CopyTree copies the directory tree src to dst (which must not exist),
// preserving file modes and modification times (nanoseconds; rqlite's
// clean-snapshot fingerprint compares the database file's mtime).
func CopyTree(src, dst string) error {
	fi, err := os.Lstat(src)
	if err != nil {
		return err
	}
	if !fi.IsDir() {
		return copyFile(src, dst, fi)
	}
	if err := os.MkdirAll(dst, 0o755); err != nil {
		return err
	}
	ents, err := os.ReadDir(src)
	if err != nil {
		return err
	}
	for _, e := range ents {
		s, d := filepath.Join(src, e.Name()), filepath.Join(dst, e.Name())
		info, err := e.Info()
		if err != nil {
			if os.IsNotExist(err) {
				continue
			}
			return err
		}
		switch {
		case info.IsDir():
			if err := CopyTree(s, d); err != nil {
				return err
			}
		case info.Mode().IsRegular():
			if err := copyFile(s, d, info); err != nil {
				return err
			}
		case info.Mode()&os.ModeSymlink != 0:
			if tgt, err := os.Readlink(s); err == nil {
				os.Symlink(tgt, d)
			}
		}
	}
	os.Chmod(dst, fi.Mode().Perm())
	return os.Chtimes(dst, fi.ModTime(), fi.ModTime())
}

func copyFile(src, dst string, fi os.FileInfo) error {
	in, err := os.Open(src)
	if err != nil {
		return err
	}
	defer in.Close()
	out, err := os.OpenFile(dst, os.O_CREATE|os.O_TRUNC|os.O_WRONLY, fi.Mode().Perm()|0o600)
	if err != nil {
		return err
	}
	if _, err := io.Copy(out, in); err != nil {
		out.Close()
		return err
	}
	if err := out.Close(); err != nil {
		return err
	}
	return os.Chtimes(dst, fi.ModTime(), fi.ModTime())
}

// ReplaceTree makes dir an exact copy of saved (dir is removed first). Crash
// states are always restored into the ORIGINAL location before recovery runs:
// rqlite's plan files store absolute paths.
func ReplaceTree(saved, dir string) error {
	if err := os.RemoveAll(dir); err != nil {
		return err
	}
	if _, err := os.Lstat(saved); os.IsNotExist(err) {
		return nil // the state is "directory does not exist"
	}
	return CopyTree(saved, dir)
}

// TreeSig is a cheap signature of a tree: relative path, kind, size, mtime of
// every entry. Two consecutive crash points with equal signatures are the same
// crash state.
func TreeSig(dir string) string {
	var b strings.Builder
	filepath.Walk(dir, func(p string, info os.FileInfo, err error) error {
		if err != nil {
			return nil
		}
		rel, _ := filepath.Rel(dir, p)
		if info.IsDir() {
			fmt.Fprintf(&b, "%s/\n", rel)
		} else {
			fmt.Fprintf(&b, "%s %d %d\n", rel, info.Size(), info.ModTime().UnixNano())
		}
		return nil
	})
	return b.String()
}

// Listing renders the tree (names and sizes only, deterministic) for messages.
func Listing(dir string) string {
	var out []string
	filepath.Walk(dir, func(p string, info os.FileInfo, err error) error {
		if err != nil || p == dir {
			return nil
		}
		rel, _ := filepath.Rel(dir, p)
		if info.IsDir() {
			out = append(out, rel+"/")
		} else {
			out = append(out, fmt.Sprintf("%s(%d)", rel, info.Size()))
		}
		return nil
	})
	sort.Strings(out)
	return strings.Join(out, " ")
}

// State is one saved crash state.
type State struct {
	Ev    vos.Event // the event at which the tree was saved
	Kind  string    // "event", "torn-half", "torn-zero", or a caller-defined kind
	Dir   string    // saved copy of Root
	Label string    // e.g. "017-pre-Rename" (unique within the recorder)
}

// Recorder is the copy-state action: installed as the vos hook, it saves a copy
// of Root at every (mutating) event. Valid when the operation under test runs
// on the calling goroutine and nothing else writes below Root meanwhile.
type Recorder struct {
	Root          string                   // directory whose states are saved
	SaveDir       string                   // where the copies go (outside Root)
	Want          func(ev vos.Event) bool  // nil: every event except OpenDir
	Torn          bool                     // also derive torn-file states (see below)
	PartialRemove bool                     // also derive states of an interrupted RemoveAll (some entries already unlinked)
	OnEvent       func(ev vos.Event) error // optional: called first; its error is returned for Pre events (fail action)

	Events []vos.Event
	States []State
	Dups   int // crash points whose tree equals the previously saved one (not saved again)
	Err    error

	lastSig    string
	lastCreate *vos.Event   // most recent successful create-type post event not followed by another mutating op
	preExist   map[int]bool // OpSeq -> did the entry the operation creates exist before it
}

// createdPath returns the file a successful create-type post event produced.
func createdPath(ev vos.Event) (string, bool) {
	if ev.Phase != vos.Post || ev.Err != nil {
		return "", false
	}
	switch ev.Op {
	case "Create", "WriteFile":
		return ev.Paths[0], true
	case "CreateTemp":
		return ev.Created, ev.Created != ""
	case "OpenFile":
		if ev.Flag&(os.O_CREATE|os.O_TRUNC) != 0 {
			return ev.Paths[0], true
		}
	}
	return "", false
}

// Hook is the vos.Hook of the recorder.
func (r *Recorder) Hook(ev vos.Event) error {
	r.Events = append(r.Events, ev)
	if ev.Phase == vos.Pre {
		if t := entryTarget(ev); t != "" {
			if r.preExist == nil {
				r.preExist = map[int]bool{}
			}
			_, err := os.Lstat(t)
			r.preExist[ev.Seq] = err == nil
		}
	}
	var ret error
	if r.OnEvent != nil {
		ret = r.OnEvent(ev)
	}
	if ev.Op == "OpenDir" {
		return ret
	}
	// Torn states: the file created by the immediately preceding operation was
	// still being written when the process died. At the next event the file
	// has its final (or at least later) content; a prefix of it, everything
	// else unchanged, is what a crash during the write leaves behind.
	if r.Torn && ev.Phase == vos.Pre && r.lastCreate != nil {
		if p, ok := createdPath(*r.lastCreate); ok && r.inRoot(p) {
			if fi, err := os.Stat(p); err == nil && fi.Mode().IsRegular() && fi.Size() > 0 {
				r.saveTorn(*r.lastCreate, p, fi.Size()/2, "torn-half")
				if r.lastCreate.Op == "WriteFile" { // never observed empty at an event
					r.saveTorn(*r.lastCreate, p, 0, "torn-zero")
				}
			}
		}
	}
	// Interrupted RemoveAll: a recursive removal is a sequence of unlinks in
	// directory order; a crash leaves some of the entries removed.
	if r.PartialRemove && ev.Phase == vos.Pre && ev.Op == "RemoveAll" && r.inRoot(ev.Paths[0]) && ev.Paths[0] != r.Root {
		r.savePartialRemove(ev)
	}
	if ev.Phase == vos.Pre {
		r.lastCreate = nil
	} else if _, ok := createdPath(ev); ok {
		e := ev
		r.lastCreate = &e
	}
	if r.Want == nil || r.Want(ev) {
		r.save(ev, "event")
	}
	return ret
}

func (r *Recorder) inRoot(p string) bool {
	rel, err := filepath.Rel(r.Root, p)
	return err == nil && !strings.HasPrefix(rel, "..")
}

func (r *Recorder) save(ev vos.Event, kind string) *State {
	sig := TreeSig(r.Root)
	if kind == "event" && sig == r.lastSig && len(r.States) > 0 {
		r.Dups++
		return nil
	}
	label := fmt.Sprintf("%03d-%s-%s", ev.Seq, ev.Phase, ev.Op)
	if kind != "event" {
		label += "-" + kind
	}
	dst := filepath.Join(r.SaveDir, label)
	if err := CopyTree(r.Root, dst); err != nil && !os.IsNotExist(err) {
		if r.Err == nil {
			r.Err = fmt.Errorf("saving state %s: %w", label, err)
		}
		return nil
	}
	if kind == "event" {
		r.lastSig = sig
	}
	r.States = append(r.States, State{Ev: ev, Kind: kind, Dir: dst, Label: label})
	return &r.States[len(r.States)-1]
}

func (r *Recorder) saveTorn(create vos.Event, path string, size int64, kind string) {
	st := r.save(create, kind)
	if st == nil {
		return
	}
	rel, _ := filepath.Rel(r.Root, path)
	if err := os.Truncate(filepath.Join(st.Dir, rel), size); err != nil && r.Err == nil {
		r.Err = err
	}
}

func (r *Recorder) savePartialRemove(ev vos.Event) {
	var files []string
	filepath.Walk(ev.Paths[0], func(p string, info os.FileInfo, err error) error {
		if err == nil && !info.IsDir() {
			files = append(files, p)
		}
		return nil
	})
	if len(files) < 2 {
		return // removing zero or one file has no intermediate state worth deriving
	}
	sort.Strings(files)
	variants := map[string][]string{
		"rm-first-half": files[:len(files)/2],
		"rm-last-half":  files[len(files)/2:],
		"rm-all-files":  files,
	}
	for _, kind := range []string{"rm-first-half", "rm-last-half", "rm-all-files"} {
		st := r.save(ev, kind)
		if st == nil {
			continue
		}
		for _, f := range variants[kind] {
			rel, _ := filepath.Rel(r.Root, f)
			os.Remove(filepath.Join(st.Dir, rel))
		}
	}
}

// Run installs the recorder as the vos hook, runs fn and removes the hook.
func (r *Recorder) Run(fn func()) {
	if err := os.MkdirAll(r.SaveDir, 0o755); err != nil {
		r.Err = err
	}
	vos.SetHook(r.Hook)
	defer vos.SetHook(nil)
	fn()
}

// Cleanup removes all saved states.
func (r *Recorder) Cleanup() { os.RemoveAll(r.SaveDir) }

// Trace renders the recorded operations (pre events only) relative to Root.
func (r *Recorder) Trace() string {
	var parts []string
	for _, ev := range r.Events {
		if ev.Phase == vos.Pre {
			parts = append(parts, RenderEvent(ev, r.Root))
		}
	}
	return strings.Join(parts, " · ")
}

// RenderEvent renders an event with paths relative to root.
func RenderEvent(ev vos.Event, root string) string {
	ps := make([]string, len(ev.Paths))
	for i, p := range ev.Paths {
		if rel, err := filepath.Rel(root, p); err == nil && !strings.HasPrefix(rel, "..") {
			p = rel
		}
		ps[i] = p
	}
	return fmt.Sprintf("%d:%s:%s(%s)", ev.Seq, ev.Phase, ev.Op, strings.Join(ps, "→"))
}

// ---------------------------------------------------------------------------
// Partial checkpoint synthesis.

// WALPages parses a SQLite WAL file and returns its page size and, for every
// page that has a committed frame, the content of the page's newest committed
// frame (what a checkpoint copies into the database file), in first-appearance
// order of the pages.
func WALPages(walPath string) (pageSize int, pgnos []uint32, pages map[uint32][]byte, err error) {
	b, err := os.ReadFile(walPath)
	if err != nil {
		return 0, nil, nil, err
	}
	if len(b) < 32 {
		return 0, nil, nil, errors.New("WAL shorter than its header")
	}
	magic := binary.BigEndian.Uint32(b[0:4])
	if magic != 0x377f0682 && magic != 0x377f0683 {
		return 0, nil, nil, errors.New("bad WAL magic")
	}
	pageSize = int(binary.BigEndian.Uint32(b[8:12]))
	if pageSize == 1 {
		pageSize = 65536
	}
	if pageSize < 512 || pageSize > 65536 {
		return 0, nil, nil, fmt.Errorf("bad WAL page size %d", pageSize)
	}
	salt := string(b[16:24])
	type fr struct {
		pgno uint32
		data []byte
	}
	var pending, committed []fr
	for off := 32; off+24+pageSize <= len(b); off += 24 + pageSize {
		h := b[off : off+24]
		if string(h[8:16]) != salt {
			break
		}
		pending = append(pending, fr{binary.BigEndian.Uint32(h[0:4]), b[off+24 : off+24+pageSize]})
		if binary.BigEndian.Uint32(h[4:8]) != 0 { // commit frame
			committed = append(committed, pending...)
			pending = nil
		}
	}
	pages = map[uint32][]byte{}
	for _, f := range committed {
		if _, ok := pages[f.pgno]; !ok {
			pgnos = append(pgnos, f.pgno)
		}
		pages[f.pgno] = f.data
	}
	return pageSize, pgnos, pages, nil
}

// PartialCheckpoint copies the chosen pages of the WAL into the database file,
// leaving the WAL untouched: the on-disk state an interrupted
// sqlite3_wal_checkpoint leaves behind (a checkpoint never modifies the WAL
// before every page has been written and synced). It returns how many pages
// were written.
func PartialCheckpoint(dbPath, walPath string, pick func(i, n int) bool) (int, error) {
	ps, pgnos, pages, err := WALPages(walPath)
	if err != nil {
		return 0, err
	}
	f, err := os.OpenFile(dbPath, os.O_RDWR, 0)
	if err != nil {
		return 0, err
	}
	defer f.Close()
	n := 0
	for i, pg := range pgnos {
		if !pick(i, len(pgnos)) {
			continue
		}
		if _, err := f.WriteAt(pages[pg], int64(pg-1)*int64(ps)); err != nil {
			return n, err
		}
		n++
	}
	return n, f.Sync()
}

// ---------------------------------------------------------------------------
// Kill action: run a helper test of the same binary in a child process.

// ChildEnv is the environment variable through which a child learns its task.
const ChildEnv = "VERIF_CRASH_CHILD"

// IsChild returns the task string when the process is a crash child.
func IsChild() (string, bool) {
	v := os.Getenv(ChildEnv)
	return v, v != ""
}

// RunChild re-executes the running test binary ($VERIF_SELF, else os.Args[0])
// with -test.run=^testName$ and ChildEnv=task. It returns whether the child
// was terminated by SIGKILL, its exit code otherwise, and its combined output.
func RunChild(testName, task string, extraEnv ...string) (killed bool, exit int, out []byte, err error) {
	self := os.Getenv("VERIF_SELF")
	if self == "" {
		self = os.Args[0]
	}
	cmd := exec.Command(self, "-test.run", "^"+testName+"$", "-test.count=1", "-test.v")
	cmd.Env = append(os.Environ(), ChildEnv+"="+task, "VERIF_STATS_DIR=")
	cmd.Env = append(cmd.Env, extraEnv...)
	out, err = cmd.CombinedOutput()
	if err == nil {
		return false, 0, out, nil
	}
	var ee *exec.ExitError
	if errors.As(err, &ee) {
		if ws, ok := ee.Sys().(syscall.WaitStatus); ok && ws.Signaled() && ws.Signal() == syscall.SIGKILL {
			return true, -1, out, nil
		}
		return false, ee.ExitCode(), out, nil
	}
	return false, -1, out, err
}

// KillAt returns a hook that SIGKILLs the process when event number k fires
// (k counts all events, as a Recorder in the parent counted them). Every event
// is first appended to logPath (one line each) so the parent can see how far
// the child got.
func KillAt(k int, logPath, root string) vos.Hook {
	var lf *os.File
	if logPath != "" {
		lf, _ = os.OpenFile(logPath, os.O_CREATE|os.O_WRONLY|os.O_APPEND, 0o644)
	}
	return func(ev vos.Event) error {
		if lf != nil {
			fmt.Fprintln(lf, RenderEvent(ev, root))
		}
		if ev.Seq == k {
			vos.KillSelf()
		}
		return nil
	}
}

// ---------------------------------------------------------------------------
// Lost unsynced directory entries (power-loss model for the namespace).

// entryTarget returns the directory entry an operation adds ("" if none).
func entryTarget(ev vos.Event) string {
	switch ev.Op {
	case "Create", "WriteFile", "Mkdir", "MkdirAll":
		return ev.Paths[0]
	case "OpenFile":
		if ev.Flag&os.O_CREATE != 0 {
			return ev.Paths[0]
		}
	case "Rename", "Link", "Symlink":
		return ev.Paths[1]
	case "CreateTemp", "MkdirTemp":
		return ev.Created // known at the post event only
	}
	return ""
}

type pendingOp struct {
	barrier   bool // an operation that cannot be undone (unlink, entry moved away)
	rename    bool
	src, dst  string // current paths (rewritten when a parent directory is renamed later)
	origDst   string // dst as it was when the operation ran
	overwrote bool
	preSeq    int
}

func underDir(p, dir string) bool {
	return p == dir || strings.HasPrefix(p, dir+string(filepath.Separator))
}

// LostEntryStates derives, from the crash state st (a state of kind "event"
// saved by r), the states a power loss can leave when directory entries that
// were not yet made durable are lost: for every directory, the entry
// additions (creates, renames into it) performed since the directory was last
// opened for fsync ("OpenDir" event) are undone newest first - once only the
// newest, once all of them - stopping at the first operation that cannot be
// undone (an unlink or an entry moved out of the directory). The file data
// itself is left as it is. States equal to one already in seen are skipped.
func (r *Recorder) LostEntryStates(st State, seen map[string]bool) []State {
	pend := map[string][]pendingOp{}
	rekey := func(from, to string) {
		for k, ops := range pend {
			nk := k
			if underDir(k, from) {
				nk = to + k[len(from):]
			}
			for i := range ops {
				if ops[i].dst != "" && underDir(ops[i].dst, from) {
					ops[i].dst = to + ops[i].dst[len(from):]
				}
			}
			if nk != k {
				delete(pend, k)
				pend[nk] = append(pend[nk], ops...)
			}
		}
	}
	for _, ev := range r.Events {
		if ev.Seq > st.Ev.Seq {
			break
		}
		if ev.Phase != vos.Post || ev.Err != nil {
			continue
		}
		if ev.Seq == st.Ev.Seq && st.Ev.Phase == vos.Pre {
			break
		}
		switch ev.Op {
		case "OpenDir":
			delete(pend, filepath.Clean(ev.Paths[0]))
			continue
		case "Remove", "RemoveAll":
			p := filepath.Clean(ev.Paths[0])
			pend[filepath.Dir(p)] = append(pend[filepath.Dir(p)], pendingOp{barrier: true})
			for k := range pend {
				if underDir(k, p) {
					delete(pend, k)
				}
			}
			continue
		}
		t := entryTarget(ev)
		if t == "" || !r.inRoot(t) {
			continue
		}
		t = filepath.Clean(t)
		existed := r.preExist[ev.OpSeq]
		if ev.Op == "Rename" {
			src := filepath.Clean(ev.Paths[0])
			rekey(src, t)
			if filepath.Dir(src) != filepath.Dir(t) {
				pend[filepath.Dir(src)] = append(pend[filepath.Dir(src)], pendingOp{barrier: true})
			}
			pend[filepath.Dir(t)] = append(pend[filepath.Dir(t)], pendingOp{rename: true, src: src, dst: t, origDst: t, overwrote: existed, preSeq: ev.OpSeq})
			continue
		}
		if existed {
			continue // no new entry (MkdirAll of an existing directory, truncating create)
		}
		pend[filepath.Dir(t)] = append(pend[filepath.Dir(t)], pendingOp{dst: t, origDst: t, preSeq: ev.OpSeq})
	}
	rel := func(p string) string { x, _ := filepath.Rel(r.Root, p); return x }
	var out []State
	var dirs []string
	for d := range pend {
		dirs = append(dirs, d)
	}
	sort.Strings(dirs)
	for di, d := range dirs {
		ops := pend[d]
		start := len(ops)
		for start > 0 && !ops[start-1].barrier {
			start--
		}
		suffix := ops[start:]
		if len(suffix) == 0 {
			continue
		}
		variants := []int{1}
		if len(suffix) > 1 {
			variants = append(variants, len(suffix))
		}
		for _, n := range variants {
			kind := "lost-newest"
			if n > 1 {
				kind = "lost-all"
			}
			label := fmt.Sprintf("%s-%s-d%d", st.Label, kind, di)
			dst := filepath.Join(r.SaveDir, label)
			if err := CopyTree(st.Dir, dst); err != nil {
				continue
			}
			ok := true
			for i := len(suffix) - 1; i >= len(suffix)-n && ok; i-- {
				op := suffix[i]
				cur := filepath.Join(dst, rel(op.dst))
				if _, err := os.Lstat(cur); err != nil {
					continue // entry already gone (removed or moved later): nothing to lose
				}
				if !op.rename {
					ok = os.RemoveAll(cur) == nil
					continue
				}
				back := filepath.Join(dst, rel(op.src))
				if _, err := os.Lstat(filepath.Dir(back)); err != nil {
					ok = false // the source directory no longer exists
					break
				}
				if _, err := os.Lstat(back); err == nil {
					ok = false // something else took the old name since
					break
				}
				if os.Rename(cur, back) != nil {
					ok = false
					break
				}
				if op.overwrote {
					// the entry that the rename replaced comes back: take it from the
					// last state saved before the rename
					var from string
					for _, s2 := range r.States {
						if s2.Kind == "event" && s2.Ev.Seq <= op.preSeq {
							from = s2.Dir
						}
					}
					if from == "" || CopyTree(filepath.Join(from, rel(op.origDst)), cur) != nil {
						ok = false
					}
				}
			}
			sig := ""
			if ok {
				sig = TreeSig(dst)
			}
			if !ok || seen[sig] {
				os.RemoveAll(dst)
				continue
			}
			seen[sig] = true
			out = append(out, State{Ev: st.Ev, Kind: kind, Dir: dst, Label: label})
		}
	}
	return out
}
