// Package vnet is a harness-owned, fault-injecting loopback network for
// in-process rqlite clusters (import path
// github.com/rqlite/rqlite/v10/internal/verif/vnet).
//
// Every node (an endpoint name such as "n0") owns one real TCP listener on
// 127.0.0.1:<kernel-chosen port> that lives as long as the Network, so a node
// can be "crashed" and restarted on the same address without racing for the
// port. All connections are real TCP connections wrapped so that each one
// knows (local node, peer node); a link matrix is consulted on dial and on
// every write, and cutting a link also closes the established connections that
// cross it (both directions die because both ends are in this process).
//
// API (all methods are safe for concurrent use):
//
//	nw := vnet.New()
//	ln, _ := nw.Listen("n0")            // net.Listener for tcp.NewMux; Close() = node's port goes dark
//	                                    // (conns refused) but the port stays reserved; Listen again re-attaches
//	nw.Addr("n0")                       // "127.0.0.1:port" ("" if never listened)
//	d := nw.Dialer("n0", hdr)           // cluster.Dialer: Dial(addr, timeout), writes mux header byte hdr
//	ly := nw.Layer("n0", muxLn, hdr)    // store.Layer = muxLn (from mux.Listen(hdr)) + Dialer
//	nw.Cut(a, b) / nw.CutOneWay(a, b)   // block a<->b / a->b (dials fail, writes fail, conns closed)
//	nw.Partition([]string{..}, ...)     // cut every link between different groups (replaces earlier cuts)
//	nw.Isolate(n)                       // cut n from every other known node (adds to earlier cuts)
//	nw.Deafen(n)                        // writes of every other node towards n are silently discarded (n still talks)
//	nw.Heal()                           // remove all cuts, deafness and delays
//	nw.SetDelay(a, b, d)                // every write a->b and b->a sleeps d first (0 = off)
//	nw.SetDelayOneWay(a, b, d)          // only writes a->b sleep d first
//	nw.DropNode(n)                      // close every connection from or to n (used by crash)
//	nw.CloseAccepted(n, peer)           // n closes the connections it accepted from peer: peer reads a clean EOF
//	nw.Blocked(a, b)                    // is a->b cut?
//	nw.Close()                          // close all listeners and connections
//
// Dials to an address that no vnet node owns fail immediately. A dial over a
// cut link fails after a short pause (5 ms) with a *net.OpError-like error;
// nothing is ever silently dropped from an open stream (TCP semantics: a
// stream either delivers in order or breaks).
package vnet

import (
	"errors"
	"fmt"
	"net"
	"sort"
	"sync"
	"sync/atomic"
	"time"
)

// ErrCut is returned by dials and writes over a cut link.
var ErrCut = errors.New("vnet: link cut")

// ErrUnknownAddr is returned when dialing an address no vnet node owns.
var ErrUnknownAddr = errors.New("vnet: no node at address")

// ErrDown is returned by Accept on a closed node listener.
var ErrDown = errors.New("vnet: listener closed")

type pair struct{ from, to string }

// Network is the shared fabric. Create one per test case.
type Network struct {
	mu      sync.Mutex
	nodes   map[string]*endpoint // by node name
	byAddr  map[string]string    // listen address -> node name
	dialers map[string]string    // local address of a dialed conn -> dialing node
	cut     map[pair]bool
	hole    map[pair]bool // writes from->to are silently discarded (connection stays open)
	delay   map[pair]time.Duration
	conns   map[*Conn]struct{}
	closed  bool

	// Counters (read with Stats).
	nDial, nDialCut, nWriteCut, nConnKilled, nSwallowed atomic.Int64
}

type endpoint struct {
	name string
	tcp  net.Listener
	addr string
	cur  *listener // attached wrapper or nil (node down)
}

// New returns an empty network.
func New() *Network {
	return &Network{
		nodes:   map[string]*endpoint{},
		byAddr:  map[string]string{},
		dialers: map[string]string{},
		cut:     map[pair]bool{},
		hole:    map[pair]bool{},
		delay:   map[pair]time.Duration{},
		conns:   map[*Conn]struct{}{},
	}
}

// Listen attaches a listener for node. The first call binds 127.0.0.1:0; a
// later call (after the previous listener was closed) re-uses the same port.
func (n *Network) Listen(node string) (net.Listener, error) {
	n.mu.Lock()
	defer n.mu.Unlock()
	if n.closed {
		return nil, ErrDown
	}
	ep := n.nodes[node]
	if ep == nil {
		tl, err := net.Listen("tcp", "127.0.0.1:0")
		if err != nil {
			return nil, err
		}
		ep = &endpoint{name: node, tcp: tl, addr: tl.Addr().String()}
		n.nodes[node] = ep
		n.byAddr[ep.addr] = node
		go n.acceptLoop(ep)
	}
	if ep.cur != nil {
		return nil, fmt.Errorf("vnet: node %s already listening", node)
	}
	l := &listener{nw: n, ep: ep, ch: make(chan net.Conn, 64), done: make(chan struct{})}
	ep.cur = l
	return l, nil
}

func (n *Network) acceptLoop(ep *endpoint) {
	for {
		c, err := ep.tcp.Accept()
		if err != nil {
			return
		}
		n.mu.Lock()
		l := ep.cur
		var wc *Conn
		if l != nil && !n.closed {
			wc = &Conn{Conn: c, nw: n, local: ep.name}
			wc.peer = n.dialers[c.RemoteAddr().String()]
			n.conns[wc] = struct{}{}
		}
		n.mu.Unlock()
		if wc == nil {
			c.Close() // node is down: connection refused/reset
			continue
		}
		select {
		case l.ch <- wc:
		case <-l.done:
			wc.Close()
		}
	}
}

// Addr returns the listen address of node, or "".
func (n *Network) Addr(node string) string {
	n.mu.Lock()
	defer n.mu.Unlock()
	if ep := n.nodes[node]; ep != nil {
		return ep.addr
	}
	return ""
}

// NodeAt returns the node owning addr, or "".
func (n *Network) NodeAt(addr string) string {
	n.mu.Lock()
	defer n.mu.Unlock()
	return n.byAddr[addr]
}

// Names returns all known node names, sorted.
func (n *Network) Names() []string {
	n.mu.Lock()
	defer n.mu.Unlock()
	return n.namesLocked()
}

func (n *Network) namesLocked() []string {
	out := make([]string, 0, len(n.nodes))
	for k := range n.nodes {
		out = append(out, k)
	}
	sort.Strings(out)
	return out
}

type listener struct {
	nw   *Network
	ep   *endpoint
	ch   chan net.Conn
	done chan struct{}
	once sync.Once
}

func (l *listener) Accept() (net.Conn, error) {
	select {
	case <-l.done:
		return nil, ErrDown
	default:
	}
	select {
	case c := <-l.ch:
		return c, nil
	case <-l.done:
		return nil, ErrDown
	}
}

// Close detaches the listener: the node's port refuses connections until
// Listen is called again. Established connections are not touched (use
// DropNode).
func (l *listener) Close() error {
	l.once.Do(func() {
		l.nw.mu.Lock()
		if l.ep.cur == l {
			l.ep.cur = nil
		}
		l.nw.mu.Unlock()
		close(l.done)
		for {
			select {
			case c := <-l.ch:
				c.Close()
			default:
				return
			}
		}
	})
	return nil
}

func (l *listener) Addr() net.Addr { return l.ep.tcp.Addr() }

// Dialer dials on behalf of one node and writes a tcp.Mux header byte.
type Dialer struct {
	nw     *Network
	node   string
	header byte
}

// Dialer returns a dialer for node (satisfies cluster.Dialer).
func (n *Network) Dialer(node string, header byte) *Dialer {
	return &Dialer{nw: n, node: node, header: header}
}

// Dial connects to addr unless the link from this node to the owner of addr
// is cut.
func (d *Dialer) Dial(addr string, timeout time.Duration) (net.Conn, error) {
	n := d.nw
	n.nDial.Add(1)
	n.mu.Lock()
	dst, ok := n.byAddr[addr]
	blocked := ok && (n.cut[pair{d.node, dst}] || n.cut[pair{dst, d.node}])
	closed := n.closed
	n.mu.Unlock()
	if closed {
		return nil, ErrDown
	}
	if !ok {
		return nil, fmt.Errorf("%w: %s", ErrUnknownAddr, addr)
	}
	if blocked {
		n.nDialCut.Add(1)
		time.Sleep(5 * time.Millisecond)
		return nil, fmt.Errorf("dial %s->%s: %w", d.node, dst, ErrCut)
	}
	if timeout <= 0 {
		timeout = 10 * time.Second
	}
	c, err := net.DialTimeout("tcp", addr, timeout)
	if err != nil {
		return nil, err
	}
	wc := &Conn{Conn: c, nw: n, local: d.node, peer: dst, dialed: true}
	n.mu.Lock()
	if n.closed || n.cut[pair{d.node, dst}] || n.cut[pair{dst, d.node}] {
		n.mu.Unlock()
		c.Close()
		return nil, fmt.Errorf("dial %s->%s: %w", d.node, dst, ErrCut)
	}
	n.dialers[c.LocalAddr().String()] = d.node
	n.conns[wc] = struct{}{}
	n.mu.Unlock()
	c.SetWriteDeadline(time.Now().Add(timeout))
	if _, err := wc.Write([]byte{d.header}); err != nil {
		wc.Close()
		return nil, err
	}
	c.SetWriteDeadline(time.Time{})
	return wc, nil
}

// Layer is a store.Layer: a (mux) listener plus a dialer.
type Layer struct {
	net.Listener
	d *Dialer
}

// Layer builds a store.Layer for node from a mux sub-listener.
func (n *Network) Layer(node string, ln net.Listener, header byte) *Layer {
	return &Layer{Listener: ln, d: n.Dialer(node, header)}
}

// Dial implements store.Layer.
func (l *Layer) Dial(addr string, timeout time.Duration) (net.Conn, error) {
	return l.d.Dial(addr, timeout)
}

// Conn is a TCP connection that knows its endpoints.
type Conn struct {
	net.Conn
	nw     *Network
	local  string
	peer   string // "" on an accepted conn until the dialer is known
	dialed bool   // this is the dialing side
	once   sync.Once
}

func (c *Conn) peerLocked() string {
	if c.peer == "" {
		c.peer = c.nw.dialers[c.Conn.RemoteAddr().String()]
	}
	return c.peer
}

// Write fails (and closes the connection) when local->peer is cut; otherwise
// it applies the link delay and writes.
func (c *Conn) Write(b []byte) (int, error) {
	n := c.nw
	n.mu.Lock()
	p := c.peerLocked()
	blocked := p != "" && n.cut[pair{c.local, p}]
	swallowed := p != "" && n.hole[pair{c.local, p}]
	d := n.delay[pair{c.local, p}]
	n.mu.Unlock()
	if swallowed {
		n.nSwallowed.Add(1)
		return len(b), nil
	}
	if blocked {
		n.nWriteCut.Add(1)
		c.Close()
		return 0, fmt.Errorf("write %s->%s: %w", c.local, p, ErrCut)
	}
	if d > 0 {
		time.Sleep(d)
	}
	return c.Conn.Write(b)
}

// Close closes the connection and forgets it.
func (c *Conn) Close() error {
	var err error
	c.once.Do(func() {
		n := c.nw
		n.mu.Lock()
		delete(n.conns, c)
		if c.dialed {
			delete(n.dialers, c.Conn.LocalAddr().String())
		}
		n.mu.Unlock()
		err = c.Conn.Close()
	})
	return err
}

// killLocked closes every connection matching f. Caller holds n.mu; the
// actual Close calls happen after unlocking (returned func).
func (n *Network) killLocked(f func(local, peer string) bool) func() {
	var victims []*Conn
	for c := range n.conns {
		if f(c.local, c.peerLocked()) {
			victims = append(victims, c)
		}
	}
	return func() {
		for _, c := range victims {
			n.nConnKilled.Add(1)
			c.Close()
		}
	}
}

// CutOneWay blocks traffic from -> to (dials in either direction fail, since a
// TCP handshake needs both directions; established connections crossing the
// link are closed).
func (n *Network) CutOneWay(from, to string) {
	n.mu.Lock()
	n.cut[pair{from, to}] = true
	kill := n.killLocked(func(l, p string) bool { return (l == from && p == to) || (l == to && p == from) })
	n.mu.Unlock()
	kill()
}

// Cut blocks a<->b.
func (n *Network) Cut(a, b string) {
	n.mu.Lock()
	n.cut[pair{a, b}] = true
	n.cut[pair{b, a}] = true
	kill := n.killLocked(func(l, p string) bool { return (l == a && p == b) || (l == b && p == a) })
	n.mu.Unlock()
	kill()
}

// Partition replaces all cuts: nodes in different groups cannot talk; nodes
// not named in any group keep full connectivity.
func (n *Network) Partition(groups ...[]string) {
	n.mu.Lock()
	n.cut = map[pair]bool{}
	grp := map[string]int{}
	for i, g := range groups {
		for _, x := range g {
			grp[x] = i + 1
		}
	}
	for a, ga := range grp {
		for b, gb := range grp {
			if ga != gb {
				n.cut[pair{a, b}] = true
			}
		}
	}
	kill := n.killLocked(func(l, p string) bool { return n.cut[pair{l, p}] || n.cut[pair{p, l}] })
	n.mu.Unlock()
	kill()
}

// Isolate cuts node from every other known node (in addition to existing cuts).
func (n *Network) Isolate(node string) {
	n.mu.Lock()
	for _, o := range n.namesLocked() {
		if o != node {
			n.cut[pair{node, o}] = true
			n.cut[pair{o, node}] = true
		}
	}
	kill := n.killLocked(func(l, p string) bool { return (l == node) != (p == node) && p != "" })
	n.mu.Unlock()
	kill()
}

// Deafen makes node deaf: everything any other known node writes to it is
// silently discarded (the writer sees success, connections stay open, dials
// succeed), while what node itself sends is still delivered. This models lost
// messages towards one node, which a closed TCP stream cannot express.
func (n *Network) Deafen(node string) {
	n.mu.Lock()
	for _, o := range n.namesLocked() {
		if o != node {
			n.hole[pair{o, node}] = true
		}
	}
	n.mu.Unlock()
}

// Heal removes all cuts, deafness and delays.
func (n *Network) Heal() {
	n.mu.Lock()
	n.cut = map[pair]bool{}
	n.hole = map[pair]bool{}
	n.delay = map[pair]time.Duration{}
	n.mu.Unlock()
}

// SetDelay makes every write on the a<->b link sleep d first (d=0 removes it).
func (n *Network) SetDelay(a, b string, d time.Duration) {
	n.mu.Lock()
	if d <= 0 {
		delete(n.delay, pair{a, b})
		delete(n.delay, pair{b, a})
	} else {
		n.delay[pair{a, b}] = d
		n.delay[pair{b, a}] = d
	}
	n.mu.Unlock()
}

// SetDelayOneWay makes every write from -> to sleep d first (d=0 removes it);
// the opposite direction is not touched.
func (n *Network) SetDelayOneWay(from, to string, d time.Duration) {
	n.mu.Lock()
	if d <= 0 {
		delete(n.delay, pair{from, to})
	} else {
		n.delay[pair{from, to}] = d
	}
	n.mu.Unlock()
}

// DropNode closes every established connection from or to node.
func (n *Network) DropNode(node string) {
	n.mu.Lock()
	kill := n.killLocked(func(l, p string) bool { return l == node || p == node })
	n.mu.Unlock()
	kill()
}

// CloseAccepted closes, on node's side only, every connection that node accepted
// from peer. The dialing side sees a clean end of stream (FIN -> io.EOF on its
// next read) instead of a local "use of closed network connection"; connectivity
// is untouched, so new dials succeed. It returns the number of connections closed.
func (n *Network) CloseAccepted(node, peer string) int {
	n.mu.Lock()
	var victims []*Conn
	for c := range n.conns {
		if !c.dialed && c.local == node && c.peerLocked() == peer {
			victims = append(victims, c)
		}
	}
	n.mu.Unlock()
	for _, c := range victims {
		n.nConnKilled.Add(1)
		c.Close()
	}
	return len(victims)
}

// Blocked reports whether traffic a->b is cut.
func (n *Network) Blocked(a, b string) bool {
	n.mu.Lock()
	defer n.mu.Unlock()
	return n.cut[pair{a, b}]
}

// Stats returns counters: dials, dials refused by a cut, writes refused by a
// cut, connections killed by cuts/drops, and currently open connections.
func (n *Network) Stats() map[string]int64 {
	n.mu.Lock()
	open := int64(len(n.conns))
	n.mu.Unlock()
	return map[string]int64{
		"dials": n.nDial.Load(), "dials_cut": n.nDialCut.Load(), "writes_cut": n.nWriteCut.Load(),
		"conns_killed": n.nConnKilled.Load(), "conns_open": open, "writes_swallowed": n.nSwallowed.Load(),
	}
}

// Close shuts the whole network down.
func (n *Network) Close() {
	n.mu.Lock()
	if n.closed {
		n.mu.Unlock()
		return
	}
	n.closed = true
	var ls []*listener
	for _, ep := range n.nodes {
		ep.tcp.Close()
		if ep.cur != nil {
			ls = append(ls, ep.cur)
		}
	}
	kill := n.killLocked(func(l, p string) bool { return true })
	n.mu.Unlock()
	for _, l := range ls {
		l.Close()
	}
	kill()
}
