// Package vstat collects per-process evidence for a verification check:
// cases generated, distinct non-trivial cases (by hash of a canonical form),
// label histograms, samples, known-finding hits and violations. It is placed
// virtually at <repo>/internal/verif/vstat through the go build overlay.
package vstat

import (
	"encoding/json"
	"fmt"
	"hash/fnv"
	"os"
	"path/filepath"
	"sort"
	"strconv"
	"strings"
	"sync"
	"testing"
	"time"

	_ "pgregory.net/rapid" // make sure -rapid.* flags exist in every harness binary
)

const maxHashes = 400000

// Violation is one oracle failure.
type Violation struct {
	Sig string `json:"sig"`
	Msg string `json:"msg"`
}

// Out is the JSON written per test function per process.
type Out struct {
	Property    string            `json:"property"`
	Sub         string            `json:"sub"`
	Rule        string            `json:"rule"`
	Evaluations int64             `json:"evaluations"`
	Nontrivial  int64             `json:"nontrivial_total"`
	Hashes      []uint64          `json:"hashes"`
	HashesCapped bool             `json:"hashes_capped"`
	Labels      map[string]int64  `json:"labels"`
	Samples     []any             `json:"samples"`
	KnownHits   map[string]int64  `json:"known_hits"`
	KnownWhat   map[string]string `json:"known_what"`
	Excluded    map[string]int64  `json:"excluded"`
	Violations  []Violation       `json:"violations"`
	Exhaustive  bool              `json:"exhaustive"`
	WallS       float64           `json:"wall_s"`
	Extra       map[string]any    `json:"extra,omitempty"`
}

// Rec is the collector handed to a check.
type Rec struct {
	mu      sync.Mutex
	out     Out
	hashes  map[uint64]struct{}
	start   time.Time
	known   map[string]bool
	nsample int
	flushed bool
}

// Tier returns "quick" or "thorough".
func Tier() string {
	if os.Getenv("VERIF_TIER") == "thorough" {
		return "thorough"
	}
	return "quick"
}

// Thorough reports whether the thorough tier is running.
func Thorough() bool { return Tier() == "thorough" }

// Scale picks a size by tier.
func Scale(quick, thorough int) int {
	if Thorough() {
		return thorough
	}
	return quick
}

// Seed returns the per-process seed chosen by the driver (never 0).
func Seed() uint64 {
	s, _ := strconv.ParseUint(os.Getenv("VERIF_PROC_SEED"), 10, 64)
	if s == 0 {
		s = 1
	}
	return s
}

// RepoDir is the rqlite tree being checked.
func RepoDir() string {
	if d := os.Getenv("VERIF_REPO"); d != "" {
		return d
	}
	return "/repo"
}

// New creates a collector; the stats file is written when the test ends.
func New(tb testing.TB, property, sub, rule string) *Rec {
	r := &Rec{hashes: map[uint64]struct{}{}, start: time.Now(), known: map[string]bool{}}
	r.out.Property, r.out.Sub, r.out.Rule = property, sub, rule
	r.out.Labels = map[string]int64{}
	r.out.KnownHits = map[string]int64{}
	r.out.KnownWhat = map[string]string{}
	r.out.Excluded = map[string]int64{}
	r.out.Extra = map[string]any{}
	for _, s := range strings.Split(os.Getenv("VERIF_KNOWN"), ";") {
		if s = strings.TrimSpace(s); s != "" {
			r.known[s] = true
		}
	}
	tb.Cleanup(r.Flush)
	return r
}

func hash64(s string) uint64 {
	h := fnv.New64a()
	h.Write([]byte(s))
	return h.Sum64()
}

// Case counts one generated case. canon is a canonical rendering of the case;
// it is hashed to count distinct non-trivial cases.
func (r *Rec) Case(nontrivial bool, canon string) {
	r.mu.Lock()
	defer r.mu.Unlock()
	r.out.Evaluations++
	if nontrivial {
		r.out.Nontrivial++
		if len(r.hashes) < maxHashes {
			r.hashes[hash64(canon)] = struct{}{}
		} else {
			r.out.HashesCapped = true
		}
	}
}

// Label increments a classification counter.
func (r *Rec) Label(l string) {
	r.mu.Lock()
	r.out.Labels[l]++
	r.mu.Unlock()
}

// LabelN adds n to a classification counter.
func (r *Rec) LabelN(l string, n int) {
	r.mu.Lock()
	r.out.Labels[l] += int64(n)
	r.mu.Unlock()
}

// Sample keeps the first few and then a sparse selection of cases.
func (r *Rec) Sample(v any) {
	r.mu.Lock()
	defer r.mu.Unlock()
	r.nsample++
	n := r.nsample
	if len(r.out.Samples) < 4 {
		r.out.Samples = append(r.out.Samples, v)
		return
	}
	// keep cases number 10, 100, 1000, ... as well
	for p := 10; p <= n; p *= 10 {
		if n == p && len(r.out.Samples) < 10 {
			r.out.Samples = append(r.out.Samples, v)
		}
	}
}

// Known reports whether sig is listed as an open known finding.
func (r *Rec) Known(sig string) bool { return r.known[sig] }

// KnownHit is called by an oracle that failed with signature sig. If sig is an
// open known finding the hit is counted and true is returned (the caller then
// treats the case as explored and continues); otherwise false.
func (r *Rec) KnownHit(sig, what string) bool {
	if !r.known[sig] {
		return false
	}
	r.mu.Lock()
	r.out.KnownHits[sig]++
	if _, ok := r.out.KnownWhat[sig]; !ok {
		r.out.KnownWhat[sig] = what
	}
	r.mu.Unlock()
	return true
}

// Excluded counts a case the generator skipped because it falls into a known
// finding class.
func (r *Rec) Excluded(sig string) {
	r.mu.Lock()
	r.out.Excluded[sig]++
	r.mu.Unlock()
}

// Violation records an oracle failure and returns the message to fail with.
func (r *Rec) Violation(sig, format string, args ...any) string {
	msg := fmt.Sprintf(format, args...)
	r.mu.Lock()
	found := false
	for i := range r.out.Violations {
		if r.out.Violations[i].Sig == sig {
			r.out.Violations[i].Msg = msg
			found = true
		}
	}
	if !found {
		r.out.Violations = append(r.out.Violations, Violation{sig, msg})
	}
	r.mu.Unlock()
	r.flush(false)
	return "VERIF-VIOLATION sig=" + sig + " :: " + msg
}

// SetExhaustive marks the run as having enumerated its finite space fully.
func (r *Rec) SetExhaustive(b bool) { r.mu.Lock(); r.out.Exhaustive = b; r.mu.Unlock() }

// Extra attaches a free-form value to the evidence.
func (r *Rec) Extra(k string, v any) { r.mu.Lock(); r.out.Extra[k] = v; r.mu.Unlock() }

// Flush writes the stats file (idempotent; later calls overwrite).
func (r *Rec) Flush() { r.flush(true) }

func (r *Rec) flush(final bool) {
	dir := os.Getenv("VERIF_STATS_DIR")
	if dir == "" {
		return
	}
	r.mu.Lock()
	defer r.mu.Unlock()
	r.out.Hashes = r.out.Hashes[:0]
	for h := range r.hashes {
		r.out.Hashes = append(r.out.Hashes, h)
	}
	sort.Slice(r.out.Hashes, func(i, j int) bool { return r.out.Hashes[i] < r.out.Hashes[j] })
	r.out.WallS = time.Since(r.start).Seconds()
	b, err := json.Marshal(&r.out)
	if err != nil {
		// samples must be JSON-encodable; fall back to their string form
		for i, s := range r.out.Samples {
			r.out.Samples[i] = fmt.Sprintf("%+v", s)
		}
		b, _ = json.Marshal(&r.out)
	}
	name := fmt.Sprintf("%s.%s.%d.json", r.out.Property, r.out.Sub, os.Getpid())
	tmp := filepath.Join(dir, "."+name+".tmp")
	if os.WriteFile(tmp, b, 0o644) == nil {
		os.Rename(tmp, filepath.Join(dir, name))
	}
}
