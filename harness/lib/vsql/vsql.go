// Package vsql gives checks an independent view of SQLite databases: it opens
// files with the raw go-sqlite3 driver (its own registration, none of rqlite's
// db package control flow) and produces canonical logical dumps.
package vsql

import (
	"database/sql"
	"fmt"
	"io"
	"os"
	"path/filepath"
	"sort"
	"strings"
	"sync"

	sqlite3 "github.com/mattn/go-sqlite3"
)

var regOnce sync.Once

// Driver is the name of the raw driver registered by this package.
const Driver = "verif-raw-sqlite3"

func register() {
	regOnce.Do(func() { sql.Register(Driver, &sqlite3.SQLiteDriver{}) })
}

// Open opens path with the raw driver. params is appended to the DSN
// (e.g. "mode=ro"). The pool is limited to one connection so that
// connection-scoped state (pragmas, temp tables, transactions) is stable.
func Open(path string, params ...string) (*sql.DB, error) {
	register()
	dsn := "file:" + path
	if len(params) > 0 {
		dsn += "?" + strings.Join(params, "&")
	}
	db, err := sql.Open(Driver, dsn)
	if err != nil {
		return nil, err
	}
	db.SetMaxOpenConns(1)
	if err := db.Ping(); err != nil {
		db.Close()
		return nil, err
	}
	return db, nil
}

// OpenMem opens a private in-memory database.
func OpenMem() (*sql.DB, error) {
	register()
	db, err := sql.Open(Driver, ":memory:")
	if err != nil {
		return nil, err
	}
	db.SetMaxOpenConns(1)
	return db, nil
}

// DumpDB returns a canonical logical dump: the schema (type, name, tbl_name,
// sql from sqlite_master ordered by name) and, for every table, every row with
// typeof() and quote() of each column, ordered by all columns. Two databases
// with the same logical content give the same string regardless of page
// layout, rowid-less ordering or journal mode.
func DumpDB(db *sql.DB) (string, error) {
	var sb strings.Builder
	rows, err := db.Query(`SELECT type, name, tbl_name, coalesce(sql,'') FROM sqlite_master ORDER BY type, name`)
	if err != nil {
		return "", fmt.Errorf("schema: %w", err)
	}
	var tables []string
	for rows.Next() {
		var typ, name, tbl, s string
		if err := rows.Scan(&typ, &name, &tbl, &s); err != nil {
			rows.Close()
			return "", err
		}
		fmt.Fprintf(&sb, "SCHEMA %s|%s|%s|%s\n", typ, name, tbl, s)
		if typ == "table" && !strings.HasPrefix(name, "sqlite_stat") {
			tables = append(tables, name)
		}
	}
	if err := rows.Err(); err != nil {
		rows.Close()
		return "", err
	}
	rows.Close()
	sort.Strings(tables)
	for _, t := range tables {
		d, err := DumpTable(db, t)
		if err != nil {
			return "", fmt.Errorf("table %s: %w", t, err)
		}
		sb.WriteString(d)
	}
	return sb.String(), nil
}

// DumpTable dumps one table canonically (see DumpDB).
func DumpTable(db *sql.DB, table string) (string, error) {
	qt := `"` + strings.ReplaceAll(table, `"`, `""`) + `"`
	cr, err := db.Query(`SELECT name FROM pragma_table_xinfo(?) WHERE hidden IN (0,2,3) ORDER BY cid`, table)
	if err != nil {
		return "", err
	}
	var cols []string
	for cr.Next() {
		var c string
		if err := cr.Scan(&c); err != nil {
			cr.Close()
			return "", err
		}
		cols = append(cols, c)
	}
	cr.Close()
	if len(cols) == 0 {
		return fmt.Sprintf("TABLE %s (no columns)\n", table), nil
	}
	var exprs []string
	for _, c := range cols {
		qc := `"` + strings.ReplaceAll(c, `"`, `""`) + `"`
		exprs = append(exprs, fmt.Sprintf(`typeof(%s)||':'||quote(%s)`, qc, qc))
	}
	// rowid where it exists
	q := fmt.Sprintf(`SELECT %s FROM %s`, strings.Join(exprs, `||'|'||`), qt)
	hasRowid := true
	if _, err := db.Exec(fmt.Sprintf(`SELECT rowid FROM %s LIMIT 0`, qt)); err != nil {
		hasRowid = false
	}
	if hasRowid {
		q = fmt.Sprintf(`SELECT 'rowid='||rowid||'|'||%s FROM %s`, strings.Join(exprs, `||'|'||`), qt)
	}
	rows, err := db.Query(q)
	if err != nil {
		return "", err
	}
	defer rows.Close()
	var lines []string
	for rows.Next() {
		var s sql.NullString
		if err := rows.Scan(&s); err != nil {
			return "", err
		}
		lines = append(lines, s.String)
	}
	if err := rows.Err(); err != nil {
		return "", err
	}
	sort.Strings(lines)
	var sb strings.Builder
	fmt.Fprintf(&sb, "TABLE %s rows=%d\n", table, len(lines))
	for _, l := range lines {
		sb.WriteString("  " + l + "\n")
	}
	return sb.String(), nil
}

// DumpFile opens a copy-free read-only view of the database file at path
// (together with its -wal if present) and dumps it. The file is copied to a
// scratch location first so that the original is never touched (opening a WAL
// database even read-only may create -shm files).
func DumpFile(path string) (string, error) {
	dir, err := os.MkdirTemp("", "vsql-dump")
	if err != nil {
		return "", err
	}
	defer os.RemoveAll(dir)
	dst := filepath.Join(dir, "copy.db")
	if err := CopyFile(path, dst); err != nil {
		return "", err
	}
	if _, err := os.Stat(path + "-wal"); err == nil {
		if err := CopyFile(path+"-wal", dst+"-wal"); err != nil {
			return "", err
		}
	}
	db, err := Open(dst)
	if err != nil {
		return "", err
	}
	defer db.Close()
	return DumpDB(db)
}

// IntegrityCheck runs PRAGMA integrity_check on a scratch copy of the file.
func IntegrityCheck(path string) (string, error) {
	dir, err := os.MkdirTemp("", "vsql-ic")
	if err != nil {
		return "", err
	}
	defer os.RemoveAll(dir)
	dst := filepath.Join(dir, "copy.db")
	if err := CopyFile(path, dst); err != nil {
		return "", err
	}
	if _, err := os.Stat(path + "-wal"); err == nil {
		if err := CopyFile(path+"-wal", dst+"-wal"); err != nil {
			return "", err
		}
	}
	db, err := Open(dst)
	if err != nil {
		return "", err
	}
	defer db.Close()
	var res string
	if err := db.QueryRow(`PRAGMA integrity_check`).Scan(&res); err != nil {
		return "", err
	}
	return res, nil
}

// CopyFile copies src to dst.
func CopyFile(src, dst string) error {
	in, err := os.Open(src)
	if err != nil {
		return err
	}
	defer in.Close()
	out, err := os.Create(dst)
	if err != nil {
		return err
	}
	if _, err := io.Copy(out, in); err != nil {
		out.Close()
		return err
	}
	return out.Close()
}

// CopyDir copies a directory tree (regular files and directories).
func CopyDir(src, dst string) error {
	return filepath.Walk(src, func(p string, info os.FileInfo, err error) error {
		if err != nil {
			return err
		}
		rel, _ := filepath.Rel(src, p)
		target := filepath.Join(dst, rel)
		if info.IsDir() {
			return os.MkdirAll(target, 0o755)
		}
		if !info.Mode().IsRegular() {
			return nil
		}
		return CopyFile(p, target)
	})
}
