// Package vos is a drop-in replacement for package os used by the verification
// harness to interpose on filesystem mutations. The check driver rewrites the
// `"os"` import of selected rqlite packages (in the build overlay only) to this
// package. Everything is re-exported unchanged (zz_generated.go, produced by
// gen.go); the MUTATING functions
//
//	Rename Remove RemoveAll Mkdir MkdirAll MkdirTemp Create CreateTemp
//	OpenFile(with write/create flags) WriteFile Truncate Chmod Chtimes Chown
//	Lchown Link Symlink
//
// call the registered Hook before ("pre") and after ("post") the real call.
// Each hook call is one numbered event and therefore one crash point: the
// state of the directory tree when the pre event of operation i fires is "the
// process died before operation i", the post event "died right after it".
//
// (*os.File).Write/Sync/Close are methods of the aliased type and are NOT
// intercepted. Torn file content is modelled separately (vcrash.TornVariants).
// Opening a directory with Open is reported as a non-mutating "OpenDir" post
// event: in the instrumented packages directories are opened only to fsync
// them, so the event marks a directory sync (used to derive
// lost-directory-entry states).
//
// With no hook installed the wrappers cost one atomic load.
package vos

import (
	"os"
	"sync"
	"sync/atomic"
	"syscall"
)

// Phase of an event relative to the real call.
type Phase string

const (
	Pre  Phase = "pre"
	Post Phase = "post"
)

// Event describes one hook call.
type Event struct {
	Seq     int      // 1-based number of this hook call since the hook was installed
	OpSeq   int      // Seq of the pre event of the same operation (== Seq for pre events)
	Op      string   // os function name: "Rename", "Create", ... or "OpenDir"
	Phase   Phase    // Pre or Post
	Paths   []string // string arguments in call order (Rename: old, new; CreateTemp: dir, pattern)
	Flag    int      // OpenFile flags, else 0
	Created string   // Post of CreateTemp/MkdirTemp: the name that was created
	Err     error    // Post: error returned by the real call
}

// Hook is called for every event while holding the package lock (events are
// totally ordered; other goroutines entering a mutating call wait). It must not
// call functions of this package (use package os directly: harness code
// imports the real os). A non-nil error returned for a Pre event makes the
// operation fail with that error WITHOUT being performed (fault injection);
// the return value for Post events is ignored.
type Hook func(ev Event) error

var (
	mu     sync.Mutex
	hook   Hook
	seq    int
	isSet  atomic.Bool
	filter func(op string, paths []string) bool
)

// SetHook installs h (nil removes it) and resets the event counter. It returns
// the previously installed hook.
func SetHook(h Hook) Hook {
	mu.Lock()
	defer mu.Unlock()
	old := hook
	hook = h
	seq = 0
	isSet.Store(h != nil)
	return old
}

// SetFilter restricts events to operations for which f returns true (nil = all).
// Filtered-out operations are performed normally and not numbered. Typical
// use: only paths below one data directory.
func SetFilter(f func(op string, paths []string) bool) {
	mu.Lock()
	filter = f
	mu.Unlock()
}

// Events returns the number of events seen since the hook was installed.
func Events() int {
	mu.Lock()
	defer mu.Unlock()
	return seq
}

// KillSelf terminates the process immediately with SIGKILL (no deferred
// functions, no flushing): the kill action of a child-process crash test.
func KillSelf() {
	syscall.Kill(syscall.Getpid(), syscall.SIGKILL)
	select {} // not reached
}

func active() bool { return isSet.Load() }

func writeFlags(flag int) bool {
	return flag&(os.O_WRONLY|os.O_RDWR|os.O_APPEND|os.O_CREATE|os.O_TRUNC) != 0
}

func fileName(f *os.File) string {
	if f == nil {
		return ""
	}
	return f.Name()
}

// pre fires the pre event; it returns the event number (0 when the operation is
// filtered out or no hook is installed) and the injected error, if any.
func pre(op string, flag int, paths []string) (int, error) {
	mu.Lock()
	defer mu.Unlock()
	if hook == nil || (filter != nil && !filter(op, paths)) {
		return 0, nil
	}
	seq++
	n := seq
	err := hook(Event{Seq: n, OpSeq: n, Op: op, Phase: Pre, Paths: paths, Flag: flag})
	return n, err
}

func post(opSeq int, op string, flag int, paths []string, created string, err error) {
	if opSeq == 0 {
		return
	}
	mu.Lock()
	defer mu.Unlock()
	if hook == nil {
		return
	}
	seq++
	hook(Event{Seq: seq, OpSeq: opSeq, Op: op, Phase: Post, Paths: paths, Flag: flag, Created: created, Err: err})
}

// Open is os.Open; opening a directory while a hook is installed is reported as
// an "OpenDir" post event (a directory about to be fsynced).
func Open(name string) (*os.File, error) {
	f, err := os.Open(name)
	if err != nil || !active() {
		return f, err
	}
	if fi, serr := f.Stat(); serr == nil && fi.IsDir() {
		mu.Lock()
		if hook != nil && (filter == nil || filter("OpenDir", []string{name})) {
			seq++
			hook(Event{Seq: seq, OpSeq: seq, Op: "OpenDir", Phase: Post, Paths: []string{name}})
		}
		mu.Unlock()
	}
	return f, err
}
