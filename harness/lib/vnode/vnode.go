// Package vnode builds in-process rqlite nodes and clusters on top of vnet
// (import path github.com/rqlite/rqlite/v10/internal/verif/vnode).
//
// A node is assembled from rqlite's public constructors exactly as
// system_test/helpers.go does -- tcp.Mux, store.New, cluster.New,
// cluster.NewClient, proxy.New -- except that the listener and the dialers come
// from a vnet.Network, so every inter-node byte is subject to the fault matrix.
// No HTTP service is started: checks talk to Node.Store (local API),
// Node.Proxy (what the HTTP handlers call: local-then-forward) and
// Node.Client (inter-node client).
//
// API overview:
//
//	vnode.QuietLogs()                       // once per process: send rqlite/raft logging to /dev/null (VERIF_VNODE_LOG=1 keeps it)
//	c := vnode.NewCluster(dir, vnode.Fast()) // dir: scratch directory (t.TempDir()); Options: raft timing knobs
//	defer c.Close()                          // closes every node and the network; never fails
//	n, err := c.Start("n0", "id0")           // start (or restart on the same dir+address) endpoint n0 with raft ID id0
//	c.StartDir(name, id, dir, opts)          // same with explicit options and data directory (node moves to a new address)
//	c.Bootstrap(n)                           // single-node bootstrap
//	c.Join(n1, n0, voter)                    // n1 asks n0 (cluster client JOIN, follows redirects) to add it
//	c.Form(3, 1)                             // convenience: 3 voters + 1 non-voter, bootstrapped, joined, leader known everywhere
//	l := c.WaitLeader(10*time.Second)        // a live node that is leader and passes VerifyLeader (nil on timeout)
//	c.Crash(n) / c.Restart(n)                // close without snapshot, port dark, conns dropped / reopen same dir+addr+id
//	c.IsolateLeader() ...                    // nemesis helpers return a description; c.Net gives the raw fault API
//	c.Live()                                 // nodes currently up
//	c.Lost()                                 // >0: some Store.Close timed out (raft deadlock), end the case as inconclusive
//
//	vnode.Exec(sql...) / vnode.QueryReq(level, sql...) / vnode.EQReq(level, sql...)  // request builders
//	vnode.RowsString(rows)                   // canonical text of query results
//	vnode.Raft(n)                            // term/commit/applied/fsm_pending from Store.Stats()
//	vnode.Config(n)                          // sorted "id@addr/role" raft configuration as n sees it
//
// If Store.Close hangs (raft pipeline deadlock under heavy load, see ErrCloseTimeout) Stop/Crash return
// ErrCloseTimeout after CloseTimeout and the node is abandoned; Restart of it fails.
//
// Soundness notes for users: every wait helper returns a "did not happen in
// time" result instead of failing; callers must treat that as inconclusive.
// Raft timeouts in Fast() are 150 ms heartbeat/election; spurious elections
// under CPU load are expected and legal.
package vnode

import (
	"context"
	"errors"
	"fmt"
	"io"
	"log"
	"net"
	"os"
	"path/filepath"
	"sort"
	"strings"
	"sync"
	"time"

	"github.com/rqlite/rqlite/v10/cluster"
	"github.com/rqlite/rqlite/v10/command/proto"
	"github.com/rqlite/rqlite/v10/internal/verif/vnet"
	"github.com/rqlite/rqlite/v10/proxy"
	"github.com/rqlite/rqlite/v10/store"
	"github.com/rqlite/rqlite/v10/tcp"
)

// Options are the per-node knobs. Zero values mean "rqlite default".
type Options struct {
	Heartbeat, Election, LeaderLease, Commit, Apply time.Duration
	SnapshotThreshold                               uint64
	SnapshotInterval                                time.Duration
	ReapTimeout, ReapReadOnlyTimeout                time.Duration
	BootstrapExpect                                 int
	ClientTimeout                                   time.Duration // cluster client dial/IO timeout (default 5 s)
	SnapshotOnClose                                 bool          // default false: Close never snapshots
}

// Fast returns options with small raft timeouts suitable for many short-lived
// clusters: 150 ms heartbeat/election/lease, 20 ms commit, 10 s apply, no
// automatic snapshots.
func Fast() Options {
	return Options{
		Heartbeat: 150 * time.Millisecond, Election: 150 * time.Millisecond, LeaderLease: 150 * time.Millisecond,
		Commit: 20 * time.Millisecond, Apply: 10 * time.Second,
		SnapshotThreshold: 1 << 30, SnapshotInterval: time.Hour,
		ClientTimeout: 5 * time.Second,
	}
}

var quietOnce sync.Once

// QuietLogs redirects os.Stderr (which every rqlite logger captures when it is
// constructed) to /dev/null for the rest of the process, unless
// VERIF_VNODE_LOG is set. Runtime panics and the testing package are not
// affected (they do not go through the os.Stderr variable / use stdout).
func QuietLogs() {
	quietOnce.Do(func() {
		if os.Getenv("VERIF_VNODE_LOG") != "" {
			return
		}
		if f, err := os.OpenFile(os.DevNull, os.O_WRONLY, 0); err == nil {
			os.Stderr = f
		}
	})
}

// Node is one rqlite node.
type Node struct {
	Name string // vnet endpoint name
	ID   string // raft node ID
	Dir  string
	Addr string // raft/cluster address (shared mux)

	Store   *store.Store
	Service *cluster.Service
	Client  *cluster.Client
	Proxy   *proxy.Proxy
	Mux     *tcp.Mux

	ln        net.Listener
	up        bool
	abandoned bool // Store.Close timed out; the data directory is still locked
	opts      Options
}

// Up reports whether the node is running.
func (n *Node) Up() bool { return n != nil && n.up }

func (n *Node) String() string { return n.Name + "/" + n.ID }

// Cluster is a set of nodes on one vnet.Network.
type Cluster struct {
	Net   *vnet.Network
	Dir   string
	Opts  Options
	Nodes []*Node // every node ever started, in start order (restarts replace in place)

	lostMu sync.Mutex
	lost   []string // data directories of abandoned nodes (still locked)
}

// NewCluster creates an empty cluster whose node directories live under dir.
func NewCluster(dir string, o Options) *Cluster {
	return &Cluster{Net: vnet.New(), Dir: dir, Opts: o}
}

// Node returns the node with the endpoint name, or nil.
func (c *Cluster) Node(name string) *Node {
	for _, n := range c.Nodes {
		if n.Name == name {
			return n
		}
	}
	return nil
}

// Live returns the running nodes.
func (c *Cluster) Live() []*Node {
	var out []*Node
	for _, n := range c.Nodes {
		if n.up {
			out = append(out, n)
		}
	}
	return out
}

// Start starts endpoint name with raft ID id using the cluster options. If
// the endpoint ran before (crashed/stopped) it is restarted on the same
// directory and address.
func (c *Cluster) Start(name, id string) (*Node, error) { return c.StartWith(name, id, c.Opts) }

// StartWith is Start with explicit options. The data directory is keyed by
// the endpoint name, so starting an existing endpoint name with a new ID
// re-uses address and directory (only sensible for a wiped directory: see
// Wipe).
func (c *Cluster) StartWith(name, id string, o Options) (*Node, error) {
	return c.StartDir(name, id, filepath.Join(c.Dir, name), o)
}

// StartDir is StartWith with an explicit data directory, e.g. the directory of
// a stopped node that comes back on a different endpoint (same node, new
// address).
func (c *Cluster) StartDir(name, id, dir string, o Options) (*Node, error) {
	if old := c.Node(name); old != nil && old.up {
		return nil, fmt.Errorf("vnode: %s already running", name)
	}
	c.lostMu.Lock()
	for _, d := range c.lost {
		if d == dir {
			c.lostMu.Unlock()
			return nil, ErrCloseTimeout // opening the locked raft log would block forever
		}
	}
	c.lostMu.Unlock()
	if err := os.MkdirAll(dir, 0o755); err != nil {
		return nil, err
	}
	ln, err := c.Net.Listen(name)
	if err != nil {
		return nil, err
	}
	discard := log.New(io.Discard, "", 0)
	mux, err := tcp.NewMux(ln, nil)
	if err != nil {
		ln.Close()
		return nil, err
	}
	if os.Getenv("VERIF_VNODE_LOG") == "" {
		mux.Logger = discard
	}
	raftLn := mux.Listen(cluster.MuxRaftHeader)
	clstrLn := mux.Listen(cluster.MuxClusterHeader)
	go mux.Serve()

	cfg := &store.Config{DBConf: store.NewDBConfig(), Dir: dir, ID: id}
	if os.Getenv("VERIF_VNODE_LOG") == "" {
		cfg.Logger = discard
	}
	st := store.New(cfg, c.Net.Layer(name, raftLn, cluster.MuxRaftHeader))
	st.NoSnapshotOnClose = !o.SnapshotOnClose
	st.HeartbeatTimeout, st.ElectionTimeout, st.LeaderLeaseTimeout = o.Heartbeat, o.Election, o.LeaderLease
	st.CommitTimeout = o.Commit
	if o.Apply != 0 {
		st.ApplyTimeout = o.Apply
	}
	st.SnapshotThreshold, st.SnapshotInterval = o.SnapshotThreshold, o.SnapshotInterval
	st.ReapTimeout, st.ReapReadOnlyTimeout = o.ReapTimeout, o.ReapReadOnlyTimeout
	st.BootstrapExpect = o.BootstrapExpect
	if os.Getenv("VERIF_VNODE_LOG") == "" {
		st.RaftLogLevel = "OFF"
	} else {
		st.RaftLogLevel = "INFO"
	}

	svc := cluster.New(clstrLn, st, st, nil)
	if err := svc.Open(); err != nil {
		ln.Close()
		mux.Close()
		return nil, err
	}
	ct := o.ClientTimeout
	if ct == 0 {
		ct = 5 * time.Second
	}
	client := cluster.NewClient(c.Net.Dialer(name, cluster.MuxClusterHeader), ct)
	pxy := proxy.New(st, client)
	if err := st.Open(); err != nil {
		svc.Close()
		ln.Close()
		c.Net.DropNode(name)
		mux.Close()
		return nil, fmt.Errorf("vnode: open store %s: %w", name, err)
	}
	n := &Node{Name: name, ID: id, Dir: dir, Addr: ln.Addr().String(), Store: st, Service: svc, Client: client,
		Proxy: pxy, Mux: mux, ln: ln, up: true, opts: o}
	svc.SetAPIAddr("api-" + name)
	pxy.SetAPIAddr("api-" + name)
	for i, old := range c.Nodes {
		if old.Name == name {
			c.Nodes[i] = n
			return n, nil
		}
	}
	c.Nodes = append(c.Nodes, n)
	return n, nil
}

// Bootstrap makes n a single-node cluster.
func (c *Cluster) Bootstrap(n *Node) error {
	return n.Store.Bootstrap(store.NewServer(n.ID, n.Addr, true))
}

// Join asks via (any member; redirects to the leader are followed by the
// cluster client) to add n with the given suffrage, using n's own client, as
// rqlited's Joiner does.
func (c *Cluster) Join(n, via *Node, voter bool) error {
	return c.JoinAs(n, via, n.ID, n.Addr, voter)
}

// JoinAs sends a join request for an arbitrary (id, addr) pair from n's client.
func (c *Cluster) JoinAs(n, via *Node, id, addr string, voter bool) error {
	jr := &proto.JoinRequest{Id: id, Address: addr, Voter: voter}
	ctx, cancel := context.WithTimeout(context.Background(), 20*time.Second)
	defer cancel()
	return n.Client.Join(ctx, jr, via.Addr, nil, 10*time.Second)
}

// Form starts voters+nonVoters nodes named n0.. with IDs id0.., bootstraps
// n0, joins the rest and waits until every node knows the leader. It returns
// an error (inconclusive for the caller) if that does not happen in 30 s.
func (c *Cluster) Form(voters, nonVoters int) error {
	total := voters + nonVoters
	for i := 0; i < total; i++ {
		if _, err := c.Start(fmt.Sprintf("n%d", i), fmt.Sprintf("id%d", i)); err != nil {
			return err
		}
	}
	if err := c.Bootstrap(c.Nodes[0]); err != nil {
		return err
	}
	if _, err := c.Nodes[0].Store.WaitForLeader(30 * time.Second); err != nil {
		return err
	}
	for i := 1; i < total; i++ {
		var err error
		for try := 0; try < 20; try++ {
			if err = c.Join(c.Nodes[i], c.Nodes[0], i < voters); err == nil {
				break
			}
			time.Sleep(100 * time.Millisecond)
		}
		if err != nil {
			return fmt.Errorf("join n%d: %w", i, err)
		}
	}
	if !c.WaitAgreed(30 * time.Second) {
		return errors.New("vnode: cluster did not agree on a leader in 30s")
	}
	return nil
}

// LeaderNow returns a live node that believes it is leader (highest-term wins
// is not decidable from outside; the first found is returned), or nil.
func (c *Cluster) LeaderNow() *Node {
	for _, n := range c.Live() {
		if n.Store.IsLeader() {
			return n
		}
	}
	return nil
}

// WaitLeader polls until some live node is leader and passes VerifyLeader (it
// reached a quorum), and returns it; nil on timeout.
func (c *Cluster) WaitLeader(timeout time.Duration) *Node {
	deadline := time.Now().Add(timeout)
	for {
		for _, n := range c.Live() {
			if n.Store.IsLeader() && n.Store.VerifyLeader() == nil {
				return n
			}
		}
		if time.Now().After(deadline) {
			return nil
		}
		time.Sleep(20 * time.Millisecond)
	}
}

// WaitAgreed waits until one live node is a verified leader and every live
// node reports that node's address as leader.
func (c *Cluster) WaitAgreed(timeout time.Duration) bool {
	deadline := time.Now().Add(timeout)
	for {
		if l := c.WaitLeader(time.Until(deadline)); l != nil {
			ok := true
			for _, n := range c.Live() {
				if a, _ := n.Store.LeaderAddr(); a != l.Addr {
					ok = false
				}
			}
			if ok {
				return true
			}
		}
		if time.Now().After(deadline) {
			return false
		}
		time.Sleep(20 * time.Millisecond)
	}
}

// Stop closes a node gracefully (still without snapshot unless
// Options.SnapshotOnClose). The address stays reserved.
func (c *Cluster) Stop(n *Node) error { return c.down(n) }

// Crash models a process kill as far as an in-process harness can: the port
// goes dark first, all connections break, then the store is closed without a
// snapshot. (Un-synced file data is not lost; that is the crash group's job.)
func (c *Cluster) Crash(n *Node) error { return c.down(n) }

// ErrCloseTimeout is returned when Store.Close did not return within
// CloseTimeout. Seen under heavy load: hashicorp/raft v1.7.3 can deadlock in
// pipeline replication (replicate goroutine blocked in netPipeline.AppendEntries
// after its decoder quit), after which Raft.Shutdown().Error() never returns.
// The node is then abandoned (its goroutines and file locks leak until the
// process exits) and cannot be restarted; callers treat the case as
// inconclusive.
var ErrCloseTimeout = errors.New("vnode: store did not close in time (node abandoned)")

// CloseTimeout bounds Store.Close in Stop/Crash/Close.
var CloseTimeout = 30 * time.Second

// QuietBeforeClose is the pause between cutting a node off and closing its store.
var QuietBeforeClose = 100 * time.Millisecond

func (c *Cluster) down(n *Node) error {
	if n == nil || !n.up {
		return nil
	}
	n.up = false
	n.ln.Close()
	c.Net.DropNode(n.Name)
	// Quiet period: the node no longer receives anything, let RPC handlers that are already
	// running finish. Without it a heartbeat of a higher term that passed raft's shutdown check
	// just before Store.Close can reach setCurrentTerm after rqlite closed the bolt store and
	// panic the whole process ("failed to save current term: database not open"; seen about once
	// per 1000 cases at load average 100-200).
	time.Sleep(QuietBeforeClose)
	done := make(chan error, 1)
	go func() { done <- n.Store.Close(true) }()
	var err error
	select {
	case err = <-done:
	case <-time.After(CloseTimeout):
		n.abandoned = true
		err = ErrCloseTimeout
		c.lostMu.Lock()
		c.lost = append(c.lost, n.Dir)
		c.lostMu.Unlock()
	}
	n.Service.Close()
	n.Mux.Close()
	c.Net.DropNode(n.Name)
	return err
}

// Lost returns the number of nodes abandoned because Store.Close timed out. A
// case that sees Lost() > 0 should end as inconclusive.
func (c *Cluster) Lost() int {
	c.lostMu.Lock()
	defer c.lostMu.Unlock()
	return len(c.lost)
}

// Restart reopens a stopped/crashed node on the same directory, address and ID.
func (c *Cluster) Restart(n *Node) (*Node, error) {
	if n.up {
		return n, nil
	}
	if n.abandoned {
		return nil, ErrCloseTimeout
	}
	return c.StartDir(n.Name, n.ID, n.Dir, n.opts)
}

// Wipe removes the data directory of a stopped node (so the endpoint can come
// back as a brand-new node re-using the address).
func (c *Cluster) Wipe(n *Node) error {
	if n.up {
		return errors.New("vnode: wipe of running node")
	}
	return os.RemoveAll(n.Dir)
}

// Close tears everything down.
func (c *Cluster) Close() {
	c.Net.Heal()
	for _, n := range c.Nodes {
		if n.up {
			n.ln.Close()
			c.Net.DropNode(n.Name)
		}
	}
	var wg sync.WaitGroup
	for _, n := range c.Nodes {
		if n.up {
			wg.Add(1)
			go func(n *Node) { defer wg.Done(); c.down(n) }(n)
		}
	}
	wg.Wait()
	c.Net.Close()
}

// ---- nemesis helpers (each returns a short description) ----

// Names returns the endpoint names of nodes.
func Names(ns []*Node) []string {
	out := make([]string, len(ns))
	for i, n := range ns {
		out[i] = n.Name
	}
	return out
}

// IsolateNode cuts n from all others.
func (c *Cluster) IsolateNode(n *Node) string {
	var rest []string
	for _, o := range c.Nodes {
		if o != n {
			rest = append(rest, o.Name)
		}
	}
	c.Net.Partition([]string{n.Name}, rest)
	return "isolate " + n.Name
}

// IsolateLeader cuts the current leader (if any) from all others and returns it.
func (c *Cluster) IsolateLeader() (*Node, string) {
	l := c.LeaderNow()
	if l == nil {
		return nil, "isolate-leader: none"
	}
	return l, c.IsolateNode(l)
}

// Split partitions the cluster into the named group and the rest.
func (c *Cluster) Split(group []*Node) string {
	in := map[*Node]bool{}
	for _, g := range group {
		in[g] = true
	}
	var a, b []string
	for _, o := range c.Nodes {
		if in[o] {
			a = append(a, o.Name)
		} else {
			b = append(b, o.Name)
		}
	}
	c.Net.Partition(a, b)
	return "split " + strings.Join(a, ",") + " | " + strings.Join(b, ",")
}

// Heal removes all cuts and delays.
func (c *Cluster) Heal() string { c.Net.Heal(); return "heal" }

// ---- request builders and result helpers ----

func stmts(sqls []string) *proto.Request {
	r := &proto.Request{}
	for _, s := range sqls {
		r.Statements = append(r.Statements, &proto.Statement{Sql: s})
	}
	return r
}

// Exec builds an ExecuteRequest.
func Exec(sqls ...string) *proto.ExecuteRequest { return &proto.ExecuteRequest{Request: stmts(sqls)} }

// QueryReq builds a QueryRequest at the given level.
func QueryReq(level proto.ConsistencyLevel, sqls ...string) *proto.QueryRequest {
	return &proto.QueryRequest{Request: stmts(sqls), Level: level}
}

// EQReq builds a unified ExecuteQueryRequest at the given level.
func EQReq(level proto.ConsistencyLevel, sqls ...string) *proto.ExecuteQueryRequest {
	return &proto.ExecuteQueryRequest{Request: stmts(sqls), Level: level}
}

// ParamString renders one value.
func ParamString(p *proto.Parameter) string {
	switch v := p.GetValue().(type) {
	case *proto.Parameter_I:
		return fmt.Sprintf("%d", v.I)
	case *proto.Parameter_D:
		return fmt.Sprintf("%g", v.D)
	case *proto.Parameter_B:
		return fmt.Sprintf("%t", v.B)
	case *proto.Parameter_Y:
		return fmt.Sprintf("x'%x'", v.Y)
	case *proto.Parameter_S:
		return fmt.Sprintf("%q", v.S)
	case nil:
		return "NULL"
	}
	return "?"
}

// RowsString renders query results canonically: rows in returned order,
// values separated by "|", rows by ";", result sets by "//"; a statement-level
// error is rendered as "ERR(<msg>)".
func RowsString(rows []*proto.QueryRows) string {
	var sb strings.Builder
	for i, r := range rows {
		if i > 0 {
			sb.WriteString("//")
		}
		if r.GetError() != "" {
			sb.WriteString("ERR(" + r.GetError() + ")")
			continue
		}
		for j, v := range r.GetValues() {
			if j > 0 {
				sb.WriteString(";")
			}
			for k, p := range v.GetParameters() {
				if k > 0 {
					sb.WriteString("|")
				}
				sb.WriteString(ParamString(p))
			}
		}
	}
	return sb.String()
}

// EQRows extracts the query parts of a unified response.
func EQRows(resp []*proto.ExecuteQueryResponse) []*proto.QueryRows {
	var out []*proto.QueryRows
	for _, r := range resp {
		if q := r.GetQ(); q != nil {
			out = append(out, q)
		} else if e := r.GetError(); e != "" {
			out = append(out, &proto.QueryRows{Error: e})
		}
	}
	return out
}

// ExecErr returns the first statement-level error in an execute response.
func ExecErr(resp []*proto.ExecuteQueryResponse) string {
	for _, r := range resp {
		if e := r.GetError(); e != "" {
			return e
		}
		if x := r.GetE(); x != nil && x.GetError() != "" {
			return x.GetError()
		}
		if q := r.GetQ(); q != nil && q.GetError() != "" {
			return q.GetError()
		}
	}
	return ""
}

// Config returns the sorted raft configuration as seen by n ("id@addr/role").
func Config(n *Node) ([]string, error) {
	ns, err := n.Store.Nodes()
	if err != nil {
		return nil, err
	}
	out := make([]string, 0, len(ns))
	for _, s := range ns {
		role := "voter"
		if s.Suffrage != proto.Suffrage_VOTER {
			role = "nonvoter"
		}
		out = append(out, s.ID+"@"+s.Addr+"/"+role)
	}
	sort.Strings(out)
	return out, nil
}

// RaftInfo is a snapshot of raft-level counters of one node.
type RaftInfo struct {
	State                            string
	Term, Commit, Applied, LastIndex uint64
	FSMPending                       int64
	FSMIndex                         uint64 // rqlite's own "fsm_index"
}

// Raft returns raft counters from Store.Stats() (public API; costs a
// directory walk, so do not call it in hot loops).
func Raft(n *Node) (RaftInfo, error) {
	var ri RaftInfo
	st, err := n.Store.Stats()
	if err != nil {
		return ri, err
	}
	rs, _ := st["raft"].(map[string]any)
	if rs == nil {
		return ri, errors.New("vnode: no raft stats")
	}
	u := func(k string) uint64 {
		v, _ := rs[k].(int64)
		return uint64(v)
	}
	ri.State, _ = rs["state"].(string)
	ri.Term, ri.Commit, ri.Applied, ri.LastIndex = u("term"), u("commit_index"), u("applied_index"), u("last_log_index")
	ri.FSMPending, _ = rs["fsm_pending"].(int64)
	ri.FSMIndex, _ = st["fsm_index"].(uint64)
	return ri, nil
}
