#!/bin/sh
# Offline setup: check the toolchain and warm the go build cache with every
# harness test binary (the cgo SQLite build is the expensive part).
set -e
cd "$(dirname "$0")"
command -v go1.26.8 >/dev/null || { echo "go1.26.8 not found"; exit 1; }
command -v python3 >/dev/null || { echo "python3 not found"; exit 1; }
mkdir -p evidence replays build
python3 ./check --prebuild
